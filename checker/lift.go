package main

// lift.go — register promotion of variables that closures only read.
//
// go/ssa keeps a local variable in a heap cell (Alloc, loads, stores) as soon as any closure captures it, also when
// every closure merely reads it. A refactoring that moves a test into a local predicate
// (`ok := func() bool { return err != nil }`) therefore turns every variable the predicate mentions from an SSA
// value with phis into loads and stores all over the enclosing function, and every rule that follows values would
// have to follow cells instead. This pass undoes that for the enclosing function: for a cell whose address is only
// ever used by whole-value stores and loads of the declaring function and by closures that only load it
// (recursively), the declaring function's own loads are replaced by the SSA value the variable has at that point
// (standard SSA construction for that one variable: phis at the iterated dominance frontier of the stores, renaming
// along the dominator tree). The cell and its stores stay — the closures still read it — and for every direct call
// of such a closure the value the variable has at the call is recorded (liftedAt), so a read through the closure's
// free variable resolves to it.
//
// Sound because nothing but the declaring function's stores writes such a cell, and those stores are all visible;
// a cell that is written by any closure (deferred ones included), whose address is passed on, or that is touched in
// a block the entry does not dominate (the recover block) is left alone.

import (
	"fmt"
	"go/token"
	"go/types"
	"reflect"
	"unsafe"

	"golang.org/x/tools/go/ssa"
)

// liftedAt: at a direct call of a closure, the value of each promoted variable the closure may read.
var liftedAt = map[*ssa.Call]map[*ssa.Alloc]ssa.Value{}

// liftedCells: the cells whose declaring-function loads were replaced.
var liftedCells = map[*ssa.Alloc]bool{}

var liftPhiNum = 500000

func setUnexported(field reflect.Value, val interface{}) {
	reflect.NewAt(field.Type(), unsafe.Pointer(field.UnsafeAddr())).Elem().Set(reflect.ValueOf(val))
}

func newLiftPhi(b *ssa.BasicBlock, al *ssa.Alloc) *ssa.Phi {
	phi := &ssa.Phi{Comment: al.Comment, Edges: make([]ssa.Value, len(b.Preds))}
	reg := reflect.ValueOf(phi).Elem().FieldByName("register")
	liftPhiNum++
	setUnexported(reg.FieldByName("num"), liftPhiNum)
	t := al.Type().Underlying().(*types.Pointer).Elem()
	tf := reg.FieldByName("typ")
	reflect.NewAt(tf.Type(), unsafe.Pointer(tf.UnsafeAddr())).Elem().Set(reflect.ValueOf(&t).Elem())
	setUnexported(reg.FieldByName("pos"), al.Pos())
	setUnexported(reg.FieldByName("anInstruction").FieldByName("block"), b)
	return phi
}

func newLiftField(b *ssa.BasicBlock, x ssa.Value, idx int, pos token.Pos) *ssa.Field {
	f := &ssa.Field{X: x, Field: idx}
	reg := reflect.ValueOf(f).Elem().FieldByName("register")
	liftPhiNum++
	setUnexported(reg.FieldByName("num"), liftPhiNum)
	t := x.Type().Underlying().(*types.Struct).Field(idx).Type()
	tf := reg.FieldByName("typ")
	reflect.NewAt(tf.Type(), unsafe.Pointer(tf.UnsafeAddr())).Elem().Set(reflect.ValueOf(&t).Elem())
	setUnexported(reg.FieldByName("pos"), pos)
	setUnexported(reg.FieldByName("anInstruction").FieldByName("block"), b)
	return f
}

// fieldReadsOnly: the address of a field (of a field ...) of the variable is only ever loaded from.
func fieldReadsOnly(fa *ssa.FieldAddr, depth int) bool {
	if depth > 4 || fa.Referrers() == nil {
		return false
	}
	for _, r := range *fa.Referrers() {
		switch x := r.(type) {
		case *ssa.DebugRef:
		case *ssa.UnOp:
			if x.Op != token.MUL {
				return false
			}
		case *ssa.FieldAddr:
			if x.X != ssa.Value(fa) || !fieldReadsOnly(x, depth+1) {
				return false
			}
		default:
			return false
		}
	}
	return true
}

// fieldChain: addr is &root.f1.f2...; returns the root and the field indices, outermost first.
func fieldChain(addr ssa.Value) (ssa.Value, []int) {
	var path []int
	for {
		fa, ok := addr.(*ssa.FieldAddr)
		if !ok {
			break
		}
		if _, isPtr := fa.X.Type().Underlying().(*types.Pointer); !isPtr {
			break
		}
		if _, isStruct := fa.X.Type().Underlying().(*types.Pointer).Elem().Underlying().(*types.Struct); !isStruct {
			break
		}
		path = append([]int{fa.Field}, path...)
		addr = fa.X
	}
	return addr, path
}

// quietCapture: the closure variable (a free variable, or the cell itself at depth 0) is only loaded, here and in
// closures made from it.
func quietCapture(a ssa.Value, depth int) bool {
	if depth > 3 || a.Referrers() == nil {
		return false
	}
	for _, r := range *a.Referrers() {
		switch x := r.(type) {
		case *ssa.DebugRef:
		case *ssa.UnOp:
			if x.Op != token.MUL {
				return false
			}
		case *ssa.FieldAddr:
			if x.X != a || !fieldReadsOnly(x, 0) {
				return false
			}
		case *ssa.MakeClosure:
			fn, ok := x.Fn.(*ssa.Function)
			if !ok {
				return false
			}
			for i, bnd := range x.Bindings {
				if bnd == a && !quietCapture(fn.FreeVars[i], depth+1) {
					return false
				}
			}
		default:
			return false
		}
	}
	return true
}

func liftable(fn *ssa.Function, al *ssa.Alloc) bool {
	if al.Referrers() == nil {
		return false
	}
	entry := fn.Blocks[0]
	captured := false
	for _, r := range *al.Referrers() {
		if b := r.Block(); b != entry && !entry.Dominates(b) {
			return false
		}
		switch x := r.(type) {
		case *ssa.DebugRef:
		case *ssa.Store:
			if x.Addr != ssa.Value(al) || x.Val == ssa.Value(al) {
				return false
			}
		case *ssa.UnOp:
			if x.Op != token.MUL {
				return false
			}
		case *ssa.FieldAddr:
			if x.X != ssa.Value(al) || !fieldReadsOnly(x, 0) {
				return false
			}
		case *ssa.MakeClosure:
			fnc, ok := x.Fn.(*ssa.Function)
			if !ok {
				return false
			}
			for i, bnd := range x.Bindings {
				if bnd == ssa.Value(al) {
					captured = true
					if !quietCapture(fnc.FreeVars[i], 1) {
						return false
					}
				}
			}
		default:
			return false
		}
	}
	return captured
}

// loopVarGroup recognises go/ssa's lowering of a 3-clause for loop variable that a closure captures (each
// iteration gets its own copy): a first cell A made before the loop, a pointer phi P = phi(A, B) in the loop header,
// and a cell B made in the post block right after the current value was read through P and initialised with it
// (`t = *P; B = new; *B = t`), from where control goes straight back to the header. Every other access goes
// through P; A is only initialised in its own block, B only used in the post block. Such a group is one variable:
// whenever a cell takes over as the current one it starts with the current value. Returns (P, B) for A.
func loopVarGroup(fn *ssa.Function, a *ssa.Alloc) (*ssa.Phi, *ssa.Alloc) {
	var p *ssa.Phi
	for _, r := range *a.Referrers() {
		switch x := r.(type) {
		case *ssa.DebugRef:
		case *ssa.Store:
			if x.Addr != ssa.Value(a) || x.Block() != a.Block() {
				return nil, nil
			}
		case *ssa.Phi:
			if p != nil && p != x {
				return nil, nil
			}
			p = x
		default:
			return nil, nil
		}
	}
	if p == nil {
		return nil, nil
	}
	var bcell *ssa.Alloc
	for _, e := range p.Edges {
		if e == ssa.Value(a) {
			continue
		}
		al, ok := e.(*ssa.Alloc)
		if !ok || (bcell != nil && bcell != al) {
			return nil, nil
		}
		bcell = al
	}
	if bcell == nil || bcell.Comment != a.Comment || !types.Identical(bcell.Type(), a.Type()) {
		return nil, nil
	}
	bb := bcell.Block()
	if len(bb.Succs) != 1 || bb.Succs[0] != p.Block() {
		return nil, nil
	}
	// t = *P ; B = new ; *B = t
	bi := instrIndex(bcell)
	if bi < 1 || bi+1 >= len(bb.Instrs) {
		return nil, nil
	}
	ld, ok := bb.Instrs[bi-1].(*ssa.UnOp)
	if !ok || ld.Op != token.MUL || ld.X != ssa.Value(p) {
		return nil, nil
	}
	st, ok := bb.Instrs[bi+1].(*ssa.Store)
	if !ok || st.Addr != ssa.Value(bcell) || st.Val != ssa.Value(ld) {
		return nil, nil
	}
	for _, r := range *bcell.Referrers() {
		switch x := r.(type) {
		case *ssa.DebugRef:
		case *ssa.Store:
			if x.Addr != ssa.Value(bcell) || x.Block() != bb {
				return nil, nil
			}
		case *ssa.UnOp:
			if x.Op != token.MUL || x.Block() != bb {
				return nil, nil
			}
		case *ssa.Phi:
			if x != p {
				return nil, nil
			}
		default:
			return nil, nil
		}
	}
	// no access through P in the post block after B took over
	for k := bi; k < len(bb.Instrs); k++ {
		var buf [8]*ssa.Value
		for _, op := range bb.Instrs[k].Operands(buf[:0]) {
			if *op == ssa.Value(p) {
				return nil, nil
			}
		}
	}
	return p, bcell
}

// ptrUsesOK: the uses of the variable through pointer ptr (its cell, or the loop header's pointer phi) are
// whole-value stores, loads, read-only field accesses and captures by closures that only read.
func ptrUsesOK(fn *ssa.Function, ptr ssa.Value, group map[ssa.Value]bool, captured *bool) bool {
	entry := fn.Blocks[0]
	if ptr.Referrers() == nil {
		return false
	}
	for _, r := range *ptr.Referrers() {
		if b := r.Block(); b != entry && !entry.Dominates(b) {
			return false
		}
		switch x := r.(type) {
		case *ssa.DebugRef:
		case *ssa.Store:
			if x.Addr != ptr || group[x.Val] {
				return false
			}
		case *ssa.UnOp:
			if x.Op != token.MUL {
				return false
			}
		case *ssa.FieldAddr:
			if x.X != ptr || !fieldReadsOnly(x, 0) {
				return false
			}
		case *ssa.Phi:
			if !group[x] {
				return false
			}
		case *ssa.MakeClosure:
			fnc, ok := x.Fn.(*ssa.Function)
			if !ok {
				return false
			}
			for i, bnd := range x.Bindings {
				if bnd == ptr {
					*captured = true
					if !quietCapture(fnc.FreeVars[i], 1) {
						return false
					}
				}
			}
		default:
			return false
		}
	}
	return true
}

// liftGroupRep: for the pointers of a promoted loop-variable group (cells and the header's pointer phi), the
// group's first cell, which stands for the variable in liftedCells / liftedAt.
var liftGroupRep = map[ssa.Value]*ssa.Alloc{}

func replaceUses(old, nw ssa.Value) {
	refs := old.Referrers()
	if refs == nil {
		return
	}
	for _, r := range *refs {
		var buf [8]*ssa.Value
		for _, op := range r.Operands(buf[:0]) {
			if *op == old {
				*op = nw
			}
		}
		if nr := nw.Referrers(); nr != nil {
			*nr = append(*nr, r)
		}
	}
	*refs = nil
}

func removeReferrer(v ssa.Value, in ssa.Instruction) {
	refs := v.Referrers()
	if refs == nil {
		return
	}
	out := (*refs)[:0]
	for _, r := range *refs {
		if r != in {
			out = append(out, r)
		}
	}
	*refs = out
}

// liftFunction promotes the liftable variables of fn; returns how many.
func liftFunction(fn *ssa.Function) int {
	if len(fn.Blocks) == 0 {
		return 0
	}
	type liftVar struct {
		rep   *ssa.Alloc
		ptrs  []ssa.Value         // the cell; for a loop-variable group: both cells and the header's pointer phi
		fresh map[*ssa.Alloc]bool // cells whose creation declares a new, zeroed variable
	}
	var vars []liftVar
	varOf := map[ssa.Value]int{}
	for _, b := range fn.Blocks {
		for _, in := range b.Instrs {
			al, ok := in.(*ssa.Alloc)
			if !ok {
				continue
			}
			if _, done := varOf[al]; done {
				continue
			}
			if liftable(fn, al) {
				varOf[al] = len(vars)
				vars = append(vars, liftVar{rep: al, ptrs: []ssa.Value{al}, fresh: map[*ssa.Alloc]bool{al: true}})
				continue
			}
			if p, bcell := loopVarGroup(fn, al); p != nil {
				group := map[ssa.Value]bool{al: true, p: true, bcell: true}
				captured := false
				if ptrUsesOK(fn, p, group, &captured) && captured {
					okBlocks := true
					entry := fn.Blocks[0]
					for _, x := range []*ssa.BasicBlock{al.Block(), bcell.Block()} {
						if x != entry && !entry.Dominates(x) {
							okBlocks = false
						}
					}
					if okBlocks {
						for q := range group {
							varOf[q] = len(vars)
							liftGroupRep[q] = al
						}
						vars = append(vars, liftVar{rep: al, ptrs: []ssa.Value{al, p, bcell}, fresh: map[*ssa.Alloc]bool{al: true}})
					}
				}
			}
		}
	}
	if len(vars) == 0 {
		return 0
	}
	// dominance frontiers
	df := map[*ssa.BasicBlock][]*ssa.BasicBlock{}
	for _, b := range fn.Blocks {
		if len(b.Preds) < 2 {
			continue
		}
		for _, p := range b.Preds {
			for r := p; r != nil && r != b.Idom(); r = r.Idom() {
				dup := false
				for _, x := range df[r] {
					if x == b {
						dup = true
					}
				}
				if !dup {
					df[r] = append(df[r], b)
				}
			}
		}
	}
	for _, v := range vars {
		liftedCells[v.rep] = true
	}
	elemOf := func(v liftVar) types.Type { return v.rep.Type().Underlying().(*types.Pointer).Elem() }
	// phi placement
	phis := map[*ssa.BasicBlock]map[int]*ssa.Phi{}
	for vi, v := range vars {
		var work []*ssa.BasicBlock
		inWork := map[*ssa.BasicBlock]bool{}
		add := func(b *ssa.BasicBlock) {
			if !inWork[b] {
				inWork[b] = true
				work = append(work, b)
			}
		}
		for _, q := range v.ptrs {
			for _, r := range *q.Referrers() {
				if st, ok := r.(*ssa.Store); ok && st.Addr == q {
					add(st.Block())
				}
			}
		}
		// the declaration itself defines the zero value
		add(v.rep.Block())
		for len(work) > 0 {
			b := work[len(work)-1]
			work = work[:len(work)-1]
			for _, y := range df[b] {
				if phis[y] == nil {
					phis[y] = map[int]*ssa.Phi{}
				}
				if phis[y][vi] == nil {
					phis[y][vi] = newLiftPhi(y, v.rep)
					add(y)
				}
			}
		}
	}
	// renaming
	cur := make([]ssa.Value, len(vars))
	for i, v := range vars {
		cur[i] = ssa.NewConst(nil, elemOf(v))
	}
	var newPhis []*ssa.Phi
	var rename func(b *ssa.BasicBlock)
	rename = func(b *ssa.BasicBlock) {
		saved := append([]ssa.Value(nil), cur...)
		for vi, phi := range phis[b] {
			cur[vi] = phi
		}
		kept := b.Instrs[:0:0]
		for _, in := range b.Instrs {
			switch x := in.(type) {
			case *ssa.Alloc:
				// (in a loop: every iteration declares a fresh, zeroed variable; the second cell of a loop-variable
				// group instead takes over the current value)
				if i, is := varOf[x]; is && vars[i].fresh[x] {
					cur[i] = ssa.NewConst(nil, elemOf(vars[i]))
				}
			case *ssa.Store:
				if i, is := varOf[x.Addr]; is {
					cur[i] = x.Val
				}
			case *ssa.UnOp:
				if x.Op == token.MUL {
					if i, is := varOf[x.X]; is {
						replaceUses(x, cur[i])
						removeReferrer(x.X, x)
						continue // the load is dropped
					}
					// v.f.g read through the variable's cell: the field of the value
					if fa, ok := x.X.(*ssa.FieldAddr); ok {
						if root, path := fieldChain(fa); len(path) > 0 {
							if i, is := varOf[root]; is {
								v := cur[i]
								for _, idx := range path {
									f := newLiftField(b, v, idx, x.Pos())
									if r := v.Referrers(); r != nil {
										*r = append(*r, f)
									}
									kept = append(kept, f)
									v = f
								}
								replaceUses(x, v)
								removeReferrer(fa, x)
								continue
							}
						}
					}
				}
			case *ssa.Call:
				if mc, ok := x.Call.Value.(*ssa.MakeClosure); ok {
					for _, bnd := range mc.Bindings {
						if i, is := varOf[bnd]; is {
							if liftedAt[x] == nil {
								liftedAt[x] = map[*ssa.Alloc]ssa.Value{}
							}
							liftedAt[x][vars[i].rep] = cur[i]
						}
					}
				}
			}
			kept = append(kept, in)
		}
		b.Instrs = kept
		for _, s := range b.Succs {
			for vi, phi := range phis[s] {
				for k, p := range s.Preds {
					if p == b {
						phi.Edges[k] = cur[vi]
					}
				}
			}
		}
		for _, d := range b.Dominees() {
			rename(d)
		}
		copy(cur, saved)
	}
	rename(fn.Blocks[0])
	// field addresses of promoted variables that nothing reads any more
	for changed := true; changed; {
		changed = false
		for _, b := range fn.Blocks {
			kept := b.Instrs[:0:0]
			for _, in := range b.Instrs {
				if fa, ok := in.(*ssa.FieldAddr); ok && len(*fa.Referrers()) == 0 {
					if root, _ := fieldChain(fa); root != nil {
						if _, is := varOf[root]; is {
							removeReferrer(fa.X, fa)
							changed = true
							continue
						}
					}
				}
				kept = append(kept, in)
			}
			b.Instrs = kept
		}
	}
	// install the phis (referrers of their operands), then drop the ones nobody reads
	for _, b := range fn.Blocks {
		for _, phi := range phis[b] {
			newPhis = append(newPhis, phi)
		}
	}
	for i := 1; i < len(newPhis); i++ {
		for j := i; j > 0 && newPhis[j].Name() < newPhis[j-1].Name(); j-- {
			newPhis[j], newPhis[j-1] = newPhis[j-1], newPhis[j]
		}
	}
	for _, phi := range newPhis {
		for k, e := range phi.Edges {
			if e == nil {
				// a predecessor the renaming did not pass through (unreachable from the entry): the zero value
				phi.Edges[k] = ssa.NewConst(nil, phi.Type())
				e = phi.Edges[k]
			}
			if r := e.Referrers(); r != nil {
				*r = append(*r, phi)
			}
		}
	}
	recorded := map[ssa.Value]bool{}
	for _, m := range liftedAt {
		for _, v := range m {
			recorded[v] = true
		}
	}
	dead := map[*ssa.Phi]bool{}
	for changed := true; changed; {
		changed = false
		for _, phi := range newPhis {
			if dead[phi] {
				continue
			}
			live := recorded[phi] // (a value recorded for a closure call keeps its phi alive)
			for _, r := range *phi.Referrers() {
				if q, isPhi := r.(*ssa.Phi); isPhi && (q == phi || dead[q]) {
					continue
				}
				live = true
			}
			if !live {
				dead[phi] = true
				changed = true
				for _, e := range phi.Edges {
					removeReferrer(e, phi)
				}
			}
		}
	}
	for _, b := range fn.Blocks {
		var add []ssa.Instruction
		for _, phi := range newPhis {
			if phi.Block() == b && !dead[phi] {
				add = append(add, phi)
			}
		}
		if len(add) > 0 {
			b.Instrs = append(add, b.Instrs...)
		}
	}
	return len(vars)
}

// liftSanity: after promotion every operand that is an instruction is still part of the function, every phi has
// one operand per predecessor, phis lead their blocks, and every value's referrer list names instructions that
// are part of the function and do use it.
func liftSanity(fn *ssa.Function) error {
	in := map[ssa.Instruction]bool{}
	for _, b := range fn.Blocks {
		seenNonPhi := false
		for _, x := range b.Instrs {
			in[x] = true
			if phi, ok := x.(*ssa.Phi); ok {
				if seenNonPhi {
					return fmt.Errorf("b%d: phi %s after a non-phi", b.Index, phi.Name())
				}
				if len(phi.Edges) != len(b.Preds) {
					return fmt.Errorf("b%d: phi %s has %d operands for %d predecessors", b.Index, phi.Name(), len(phi.Edges), len(b.Preds))
				}
			} else {
				seenNonPhi = true
			}
			if x.Block() != b {
				return fmt.Errorf("b%d: instruction with a foreign block", b.Index)
			}
		}
	}
	for _, b := range fn.Blocks {
		for _, x := range b.Instrs {
			var buf [16]*ssa.Value
			for _, op := range x.Operands(buf[:0]) {
				if *op == nil {
					continue
				}
				if oi, ok := (*op).(ssa.Instruction); ok && oi.Parent() == fn && !in[oi] {
					return fmt.Errorf("b%d: %T uses %s, which was removed", b.Index, x, (*op).Name())
				}
				if refs := (*op).Referrers(); refs != nil && (*op).Parent() == fn {
					found := false
					for _, r := range *refs {
						if r == x {
							found = true
						}
					}
					if !found {
						return fmt.Errorf("b%d: %T uses %s but is not among its referrers", b.Index, x, (*op).Name())
					}
				}
			}
			if v, ok := x.(ssa.Value); ok && v.Referrers() != nil {
				for _, r := range *v.Referrers() {
					if !in[r] {
						return fmt.Errorf("b%d: %s is referred to by a removed instruction", b.Index, v.Name())
					}
				}
			}
		}
	}
	return nil
}
