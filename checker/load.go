package main

import (
	"fmt"
	"go/ast"
	"go/token"
	"go/types"
	"os"
	"sort"
	"strings"

	"golang.org/x/tools/go/callgraph"
	"golang.org/x/tools/go/callgraph/cha"
	"golang.org/x/tools/go/callgraph/vta"
	"golang.org/x/tools/go/packages"
	"golang.org/x/tools/go/ssa"
	"golang.org/x/tools/go/ssa/ssautil"
)

// Mod is the import-path prefix of the analysed module; function keys are
// printed without it.
const Mod = "github.com/libp2p/go-libp2p/"

// Ctx is the loaded, type-checked and SSA-lowered program.
type Ctx struct {
	callersOf map[*ssa.Function][]*ssa.Function
	RepoDir   string
	Fset      *token.FileSet
	Pkgs      []*packages.Package // packages of the main module (non-test)
	byPath    map[string]*packages.Package
	allPkgs   map[string]*packages.Package // every loaded package incl. dependencies
	Prog      *ssa.Program
	SSAPkgs   map[string]*ssa.Package
	// every source function of the main module, including function literals
	Fns        []*ssa.Function
	fnByKey    map[string]*ssa.Function
	parentOf   map[*ssa.Function]*ssa.Function
	cg         *callgraph.Graph
	Tier       string
	NCallSites int
	NLifted    int
}

func load(repo string, overlay map[string][]byte) (*Ctx, error) {
	// go/packages execs `go list` from PATH; the repository needs a newer
	// toolchain than the system default (DESIGN.md 2.1)
	if _, err := os.Stat("/opt/veriftools/go1.26.8/bin/go"); err == nil && !strings.Contains(os.Getenv("PATH"), "/opt/veriftools/go1.26.8/bin") {
		os.Setenv("PATH", "/opt/veriftools/go1.26.8/bin:"+os.Getenv("PATH"))
	}
	cfg := &packages.Config{
		Mode:    packages.LoadAllSyntax,
		Dir:     repo,
		Overlay: overlay,
		Env:     append(os.Environ(), "GOFLAGS=-mod=mod", "GOPROXY=off", "GOSUMDB=off", "GOTOOLCHAIN=local", "CGO_ENABLED=0", "GOWORK=off"),
		Tests:   false,
	}
	pkgs, err := packages.Load(cfg, "./...")
	if err != nil {
		return nil, err
	}
	if len(pkgs) == 0 {
		return nil, fmt.Errorf("no packages loaded from %s", repo)
	}
	c := &Ctx{RepoDir: repo, byPath: map[string]*packages.Package{}, SSAPkgs: map[string]*ssa.Package{},
		fnByKey: map[string]*ssa.Function{}, parentOf: map[*ssa.Function]*ssa.Function{}}
	var terrs []string
	c.allPkgs = map[string]*packages.Package{}
	packages.Visit(pkgs, nil, func(p *packages.Package) {
		c.allPkgs[p.PkgPath] = p
		for _, e := range p.Errors {
			terrs = append(terrs, fmt.Sprintf("%s: %s", p.PkgPath, e.Msg))
		}
	})
	if len(terrs) > 0 {
		sort.Strings(terrs)
		if len(terrs) > 10 {
			terrs = terrs[:10]
		}
		return nil, fmt.Errorf("type errors:\n  %s", strings.Join(terrs, "\n  "))
	}
	c.Fset = pkgs[0].Fset
	for _, p := range pkgs {
		if strings.HasPrefix(p.PkgPath+"/", Mod) {
			c.Pkgs = append(c.Pkgs, p)
			c.byPath[p.PkgPath] = p
		}
	}
	sort.Slice(c.Pkgs, func(i, j int) bool { return c.Pkgs[i].PkgPath < c.Pkgs[j].PkgPath })
	if len(c.Pkgs) == 0 {
		return nil, fmt.Errorf("no packages of module %s loaded", Mod)
	}
	prog, ssapkgs := ssautil.AllPackages(pkgs, ssa.InstantiateGenerics)
	prog.Build()
	c.Prog = prog
	for i, p := range pkgs {
		if ssapkgs[i] != nil {
			c.SSAPkgs[p.PkgPath] = ssapkgs[i]
		}
	}
	// collect source functions of the module
	for _, p := range c.Pkgs {
		sp := c.SSAPkgs[p.PkgPath]
		if sp == nil {
			continue
		}
		var add func(f *ssa.Function, parent *ssa.Function)
		add = func(f *ssa.Function, parent *ssa.Function) {
			if f == nil || f.Blocks == nil {
				return
			}
			c.Fns = append(c.Fns, f)
			if parent != nil {
				c.parentOf[f] = parent
			}
			for _, a := range f.AnonFuncs {
				add(a, f)
			}
		}
		for _, m := range sp.Members {
			switch m := m.(type) {
			case *ssa.Function:
				if m.Synthetic == "" || m.Name() == "init" {
					add(m, nil)
				}
			case *ssa.Type:
				nt, ok := m.Type().(*types.Named)
				if !ok {
					continue
				}
				for _, T := range []types.Type{nt, types.NewPointer(nt)} {
					ms := prog.MethodSets.MethodSet(T)
					for i := 0; i < ms.Len(); i++ {
						f := prog.MethodValue(ms.At(i))
						if f != nil && f.Synthetic == "" && f.Pkg == sp {
							if _, seen := c.fnByKey[fnKey(f)]; !seen {
								c.fnByKey[fnKey(f)] = f
								add(f, nil)
							}
						}
					}
				}
			}
		}
	}
	for _, f := range c.Fns {
		c.fnByKey[fnKey(f)] = f
		for _, b := range f.Blocks {
			for _, in := range b.Instrs {
				if _, ok := in.(ssa.CallInstruction); ok {
					c.NCallSites++
				}
			}
		}
	}
	sort.Slice(c.Fns, func(i, j int) bool { return fnKey(c.Fns[i]) < fnKey(c.Fns[j]) })
	// variables that closures only read go back into registers in their declaring function (lift.go)
	if os.Getenv("LP2P_NOLIFT") == "" {
		for _, f := range c.Fns {
			n := liftFunction(f)
			c.NLifted += n
			if n > 0 {
				if err := liftSanity(f); err != nil {
					return nil, fmt.Errorf("register promotion left %s ill-formed: %v", fnKey(f), err)
				}
			}
		}
	}
	return c, nil
}

// fnKey is the stable, resolved name of a function:
//
//	p2p/net/swarm.NewSwarm
//	(*p2p/net/swarm.Swarm).addConn
//	(*p2p/net/swarm.Swarm).addConn$1
func fnKey(f *ssa.Function) string {
	if f == nil {
		return "<nil>"
	}
	return strings.ReplaceAll(f.String(), Mod, "")
}

// objKey is the same for a types.Func (including interface methods).
func objKey(f *types.Func) string {
	if f == nil {
		return "<nil>"
	}
	return strings.ReplaceAll(f.FullName(), Mod, "")
}

// Fn resolves a function by key; nil if it does not exist.
func (c *Ctx) Fn(key string) *ssa.Function { return c.fnByKey[key] }

func (c *Ctx) Pkg(path string) *packages.Package {
	if p := c.byPath[Mod+path]; p != nil {
		return p
	}
	return c.byPath[path]
}

// Named resolves a named type "pkgpath.Name" (module-relative path).
func (c *Ctx) Named(pkg, name string) *types.Named {
	p := c.Pkg(pkg)
	if p == nil {
		return nil
	}
	o := p.Types.Scope().Lookup(name)
	if o == nil {
		return nil
	}
	n, _ := o.Type().(*types.Named)
	return n
}

// Field resolves a struct field object (searching embedded structs one level).
func (c *Ctx) Field(pkg, typ, field string) *types.Var {
	n := c.Named(pkg, typ)
	if n == nil {
		return nil
	}
	st, ok := n.Underlying().(*types.Struct)
	if !ok {
		return nil
	}
	for i := 0; i < st.NumFields(); i++ {
		if st.Field(i).Name() == field {
			return st.Field(i)
		}
	}
	return nil
}

func (c *Ctx) Obj(pkg, name string) types.Object {
	p := c.Pkg(pkg)
	if p == nil {
		p = c.allPkgs[pkg]
	}
	if p == nil {
		return nil
	}
	return p.Types.Scope().Lookup(name)
}

func (c *Ctx) Pos(p token.Pos) string {
	if !p.IsValid() || c == nil {
		return "-"
	}
	pos := c.Fset.Position(p)
	f := strings.TrimPrefix(pos.Filename, c.RepoDir+"/")
	return fmt.Sprintf("%s:%d", f, pos.Line)
}

// Parent returns the enclosing function of a function literal (nil for a
// top-level function).
func (c *Ctx) Parent(f *ssa.Function) *ssa.Function { return c.parentOf[f] }

// Root returns the outermost enclosing declared function.
func (c *Ctx) Root(f *ssa.Function) *ssa.Function {
	for c.parentOf[f] != nil {
		f = c.parentOf[f]
	}
	return f
}

// FnsOfPkg lists the source functions (incl. literals) of one package.
func (c *Ctx) FnsOfPkg(pkg string) []*ssa.Function {
	var out []*ssa.Function
	full := Mod + pkg
	for _, f := range c.Fns {
		if f.Pkg != nil && f.Pkg.Pkg.Path() == full {
			out = append(out, f)
		}
	}
	return out
}

// CallGraph builds (once) the VTA call graph over all functions.
func (c *Ctx) CallGraph() *callgraph.Graph {
	if c.cg == nil {
		all := ssautil.AllFunctions(c.Prog)
		c.cg = vta.CallGraph(all, cha.CallGraph(c.Prog))
	}
	return c.cg
}

// FileOf returns the syntax file that contains pos.
func (c *Ctx) FileOf(pkg *packages.Package, pos token.Pos) *ast.File {
	for _, f := range pkg.Syntax {
		if f.FileStart <= pos && pos <= f.FileEnd {
			return f
		}
	}
	return nil
}
