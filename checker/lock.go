package main

import (
	"fmt"
	"go/token"
	"go/types"
	"sort"
	"strings"

	"golang.org/x/tools/go/ssa"
)

// Engine E4: guarded-by / requires-lock / balance on the SSA CFG.

type lockMode int

const (
	modeNone lockMode = iota
	modeR
	modeW
)

// lockSpec: fields of struct Pkg.Type guarded by the mutex reached from the
// same object through the field path Mutex ("mu", "Mutex", "resourceScope.Mutex").
type lockSpec struct {
	Pkg, Type string
	Mutex     string
	Guarded   []string
	// Owned: fields of other (lock-less) types that are guarded at class
	// level by this mutex: some lock of this class must be held.
	Owned map[string][]string // type name (same package) -> fields
	// Requires documents helpers that run with the lock held by the caller;
	// the engine infers and verifies this at every call site, the list is
	// checked to be consistent with the inference.
	Requires []string
	// Exempt: function keys whose accesses are not checked, with the reason.
	Exempt map[string]string
	// RunsLocked: closures of these functions, or these functions themselves,
	// execute with the lock held by construction (reason given).
	RunsLocked map[string]string
	// ExternalLock: instead of a mutex of the same object, the class-level
	// lock OtherPkgType.Mutex guards the fields (e.g. relay constraints).
	ExternalClass string
	// ReadsUnlockedOK: fields that may be read without the lock (reason).
	ReadsUnlockedOK map[string]string
	// OtherPkgs: additional packages whose functions are scanned.
	OtherPkgs []string
}

type heldLock struct {
	mode  lockMode
	class string // "pkg.Type.field" of the innermost struct holding the mutex
}

type heldSet map[string]heldLock // key: access path of the mutex, e.g. "s.mu"

func (h heldSet) clone() heldSet {
	n := heldSet{}
	for k, v := range h {
		n[k] = v
	}
	return n
}

func meet(a, b heldSet) heldSet {
	n := heldSet{}
	for k, va := range a {
		if vb, ok := b[k]; ok {
			if vb.mode < va.mode {
				va.mode = vb.mode
			}
			n[k] = va
		}
	}
	return n
}

func union(a, b heldSet) heldSet {
	n := a.clone()
	for k, vb := range b {
		if va, ok := n[k]; !ok || vb.mode > va.mode {
			n[k] = vb
		}
	}
	return n
}

func sameHeld(a, b heldSet) bool {
	if len(a) != len(b) {
		return false
	}
	for k, v := range a {
		if w, ok := b[k]; !ok || w != v {
			return false
		}
	}
	return true
}

// pathOf canonicalises an address/value to an access path. Roots are
// variable names (parameters, free variables, named locals) or SSA register
// names for call results.
func pathOf(v ssa.Value) string { return pathOfD(v, 0) }

// pathOfResolved: like pathOf, but a variable the closure only reads and that lift.go promoted in the declaring
// function is named by what the declaring function assigned to it (the declaring function no longer reads the
// variable's cell, so its own paths are those of the assigned values).
var pathResolveCaptured = false

func pathOfResolved(v ssa.Value) string {
	old := pathResolveCaptured
	pathResolveCaptured = true
	defer func() { pathResolveCaptured = old }()
	return pathOfD(v, 0)
}

// capturedRootPath: the enclosing function's path of the closure's captured variable `root` when lift.go promoted
// it there; root itself otherwise (the enclosing function then names the variable's cell the same way).
func capturedRootPath(f *ssa.Function, root string) string {
	for _, fv := range f.FreeVars {
		if fv.Name() != root {
			continue
		}
		if al := boundCell(fv); al != nil && liftedCells[al] {
			if s := capturedValue(fv); s != nil {
				return pathOfD(s, 0)
			}
		}
	}
	return root
}

func pathOfD(v ssa.Value, d int) string {
	if d > 40 {
		return "v:" + v.Name()
	}
	switch x := v.(type) {
	case *ssa.Parameter:
		return x.Name()
	case *ssa.FreeVar:
		return x.Name()
	case *ssa.Alloc:
		if x.Comment != "" && x.Comment != "complit" && x.Comment != "new" {
			return x.Comment
		}
		return "alloc:" + x.Name()
	case *ssa.Global:
		return "global:" + x.Name()
	case *ssa.UnOp:
		if x.Op == token.MUL {
			// a variable the closure only reads, promoted in the declaring function (lift.go): the declaring function
			// names it by what was assigned, so the closure must too
			if fv, isFV := x.X.(*ssa.FreeVar); isFV && pathResolveCaptured {
				if al := boundCell(fv); al != nil && liftedCells[al] {
					if s := capturedValue(fv); s != nil {
						return pathOfD(s, d+1)
					}
				}
			}
			return pathOfD(x.X, d+1)
		}
	case *ssa.FieldAddr:
		f, _ := fieldAddrOf(x)
		if f != nil {
			return pathOfD(x.X, d+1) + "." + f.Name()
		}
	case *ssa.Field:
		if st, ok := x.X.Type().Underlying().(*types.Struct); ok {
			return pathOfD(x.X, d+1) + "." + st.Field(x.Field).Name()
		}
	case *ssa.IndexAddr:
		return pathOfD(x.X, d+1) + "[]"
	case *ssa.Index:
		return pathOfD(x.X, d+1) + "[]"
	case *ssa.ChangeType:
		return pathOfD(x.X, d+1)
	case *ssa.Convert:
		return pathOfD(x.X, d+1)
	case *ssa.ChangeInterface:
		return pathOfD(x.X, d+1)
	case *ssa.MakeInterface:
		return pathOfD(x.X, d+1)
	case *ssa.TypeAssert:
		return pathOfD(x.X, d+1)
	case *ssa.Phi:
		p := ""
		first := true
		for _, e := range x.Edges {
			if e == ssa.Value(x) {
				continue
			}
			if _, isPhi := e.(*ssa.Phi); isPhi && d > 6 {
				return "v:" + x.Name()
			}
			q := pathOfD(e, d+1)
			if first {
				first = false
				p = q
			} else if p != q {
				return "v:" + x.Name()
			}
		}
		return p
	}
	return "v:" + v.Name()
}

func pathRoot(p string) string {
	if i := strings.IndexAny(p, ".["); i >= 0 {
		return p[:i]
	}
	return p
}

// rootIsFresh: the root of the access path is an object allocated in this
// very function (constructor) — not yet shared.
func rootIsFresh(fn *ssa.Function, v ssa.Value) bool {
	for {
		switch x := v.(type) {
		case *ssa.UnOp:
			if x.Op != token.MUL {
				return false
			}
			v = x.X
		case *ssa.FieldAddr:
			v = x.X
		case *ssa.Field:
			v = x.X
		case *ssa.IndexAddr:
			v = x.X
		case *ssa.ChangeType:
			v = x.X
		case *ssa.Alloc:
			// a spilled parameter is not fresh
			for _, r := range *x.Referrers() {
				if st, ok := r.(*ssa.Store); ok && st.Addr == ssa.Value(x) {
					if _, isP := st.Val.(*ssa.Parameter); isP {
						return false
					}
					// a local pointer variable: fresh iff what is stored is fresh
					if _, isPtr := x.Type().(*types.Pointer).Elem().Underlying().(*types.Pointer); isPtr {
						if !rootIsFresh(fn, st.Val) {
							return false
						}
					}
				}
			}
			return true
		default:
			return false
		}
	}
}

var mutexOps = map[string]struct {
	acquire bool
	mode    lockMode
}{
	"(*sync.Mutex).Lock":      {true, modeW},
	"(*sync.Mutex).Unlock":    {false, modeW},
	"(*sync.RWMutex).Lock":    {true, modeW},
	"(*sync.RWMutex).Unlock":  {false, modeW},
	"(*sync.RWMutex).RLock":   {true, modeR},
	"(*sync.RWMutex).RUnlock": {false, modeR},
}

func mutexClass(recv ssa.Value) string {
	// recv is the *sync.Mutex value: &x.mu  or a load of a pointer field
	v := recv
	if u, ok := v.(*ssa.UnOp); ok && u.Op == token.MUL {
		v = u.X
	}
	if fa, ok := v.(*ssa.FieldAddr); ok {
		f, base := fieldAddrOf(fa)
		if f != nil {
			return fieldKeyOf(base, f)
		}
	}
	return "?"
}

// lockFlow computes, for one function, the must-held and may-held lock sets
// before every instruction.
type lockFlow struct {
	must map[ssa.Instruction]heldSet
	may  map[ssa.Instruction]heldSet
	// deferred unlocks registered (may), by key
	deferredUnlock map[string]bool
	exitMay        map[*ssa.Return]heldSet
	// the deferred unlocks registered on EVERY path to the return (flow-sensitive counterpart of deferredUnlock)
	exitDeferred map[*ssa.Return]map[string]bool
	exitBal      map[*ssa.Return]heldSet
}

func computeLockFlow(fn *ssa.Function, entry heldSet) *lockFlow {
	lf := &lockFlow{must: map[ssa.Instruction]heldSet{}, may: map[ssa.Instruction]heldSet{}, deferredUnlock: map[string]bool{}, exitMay: map[*ssa.Return]heldSet{}, exitDeferred: map[*ssa.Return]map[string]bool{}, exitBal: map[*ssa.Return]heldSet{}}
	if len(fn.Blocks) == 0 {
		return lf
	}
	type st struct {
		must, may heldSet
		bal       heldSet         // may-held, with a deferred unlock counted as the release (balance only)
		def       map[string]bool // deferred unlocks registered on every path so far
	}
	cloneDef := func(m map[string]bool) map[string]bool {
		o := map[string]bool{}
		for k := range m {
			o[k] = true
		}
		return o
	}
	in := map[*ssa.BasicBlock]*st{}
	in[fn.Blocks[0]] = &st{entry.clone(), entry.clone(), entry.clone(), map[string]bool{}}
	transfer := func(b *ssa.BasicBlock, s st, record bool) st {
		must, may := s.must.clone(), s.may.clone()
		def := cloneDef(s.def)
		bal := s.bal.clone()
		for _, ins := range b.Instrs {
			if record {
				lf.must[ins] = must.clone()
				lf.may[ins] = may.clone()
			}
			switch x := ins.(type) {
			case *ssa.Call:
				if op, ok := mutexOps[calleeKey(x)]; ok && len(x.Call.Args) > 0 {
					k := pathOf(x.Call.Args[0])
					if op.acquire {
						hl := heldLock{op.mode, mutexClass(x.Call.Args[0])}
						must[k] = hl
						may[k] = hl
						bal[k] = hl
					} else {
						delete(must, k)
						delete(may, k)
						delete(bal, k)
					}
				}
			case *ssa.Defer:
				if op, ok := mutexOps[calleeKey(x)]; ok && !op.acquire && len(x.Call.Args) > 0 {
					lf.deferredUnlock[pathOf(x.Call.Args[0])] = true
					def[pathOf(x.Call.Args[0])] = true
					delete(bal, pathOf(x.Call.Args[0]))
				} else if f := x.Call.StaticCallee(); f != nil && f.Blocks != nil && len(f.Blocks) <= 3 {
					// defer func() { mu.Unlock() }()
					acquiredFirst := map[string]bool{}
					allInstrsIn(f, func(i2 ssa.Instruction) {
						if c2, ok := i2.(*ssa.Call); ok {
							if op, ok := mutexOps[calleeKey(c2)]; ok && len(c2.Call.Args) > 0 {
								k2 := pathOf(c2.Call.Args[0])
								if op.acquire {
									// (a deferred function that takes the lock itself does not release the caller's)
									acquiredFirst[k2] = true
								} else if !acquiredFirst[k2] {
									lf.deferredUnlock[k2] = true
									def[k2] = true
									delete(bal, k2)
								}
							}
						}
					})
				}
			case *ssa.Return:
				if record {
					lf.exitMay[x] = may.clone()
					lf.exitDeferred[x] = cloneDef(def)
					lf.exitBal[x] = bal.clone()
				}
			}
		}
		return st{must, may, bal, def}
	}
	// fixpoint
	work := []*ssa.BasicBlock{fn.Blocks[0]}
	for len(work) > 0 {
		b := work[0]
		work = work[1:]
		out := transfer(b, *in[b], false)
		for _, s := range b.Succs {
			cur := in[s]
			if cur == nil {
				in[s] = &st{out.must.clone(), out.may.clone(), out.bal.clone(), cloneDef(out.def)}
				work = append(work, s)
				continue
			}
			nm, ny := meet(cur.must, out.must), union(cur.may, out.may)
			nb := union(cur.bal, out.bal)
			nd := map[string]bool{}
			for k := range cur.def {
				if out.def[k] {
					nd[k] = true
				}
			}
			if !sameHeld(nm, cur.must) || !sameHeld(ny, cur.may) || !sameHeld(nb, cur.bal) || len(nd) != len(cur.def) {
				cur.must, cur.may, cur.bal, cur.def = nm, ny, nb, nd
				work = append(work, s)
			}
		}
	}
	for _, b := range fn.Blocks {
		if s := in[b]; s != nil {
			transfer(b, *s, true)
		}
	}
	return lf
}

// ---------------------------------------------------------------------------

type lockReq struct {
	root   string // variable name in the function that must be locked
	sub    string // path from the variable to the object owning the mutex ("" or ".x.y")
	mutex  string
	mode   lockMode
	class  string // non-empty: class-level requirement (any lock of the class)
	origin string // description of the access that created the requirement
	pos    token.Pos
	depth  int
}

func (q lockReq) key() string {
	return fmt.Sprintf("%s|%s|%s|%d|%s", q.root, q.sub, q.mutex, q.mode, q.class)
}

type guardedAccess struct {
	fn    *ssa.Function
	in    ssa.Instruction
	base  ssa.Value
	field string
	typ   string
	write bool
	class bool // class-level (owned sub-object)
}

// isWriteAccess: the field address is stored to, or the loaded map/slice is
// mutated in place.
func isWriteAccess(fa *ssa.FieldAddr) bool {
	for _, r := range *fa.Referrers() {
		switch x := r.(type) {
		case *ssa.Store:
			if x.Addr == ssa.Value(fa) {
				return true
			}
		case *ssa.UnOp:
			if x.Op != token.MUL {
				continue
			}
			for _, r2 := range *x.Referrers() {
				switch y := r2.(type) {
				case *ssa.MapUpdate:
					if y.Map == ssa.Value(x) {
						return true
					}
				case *ssa.Call:
					if calleeKey(y) == "builtin.delete" && len(y.Call.Args) > 0 && y.Call.Args[0] == ssa.Value(x) {
						return true
					}
				case *ssa.IndexAddr:
					if y.X == ssa.Value(x) {
						for _, r3 := range *y.Referrers() {
							if st, ok := r3.(*ssa.Store); ok && st.Addr == ssa.Value(y) {
								return true
							}
						}
					}
				}
			}
		case *ssa.FieldAddr:
			// nested struct field written
			if isWriteAccess(x) {
				return true
			}
		}
	}
	return false
}

func typeNameOf(t types.Type) (pkg, name string) {
	if p, ok := t.Underlying().(*types.Pointer); ok {
		t = p.Elem()
	}
	if p, ok := t.(*types.Pointer); ok {
		t = p.Elem()
	}
	if n, ok := t.(*types.Named); ok && n.Obj().Pkg() != nil {
		return strings.TrimPrefix(n.Obj().Pkg().Path(), Mod), n.Obj().Name()
	}
	return "", ""
}

var syncCallbackCallees = map[string]bool{
	"sort.Slice": true, "sort.SliceStable": true, "sort.Search": true, "slices.SortFunc": true, "slices.SortStableFunc": true,
	"slices.DeleteFunc": true, "slices.IndexFunc": true, "slices.ContainsFunc": true, "(*sync.Once).Do": true,
	"maps.DeleteFunc": true,
}

// lockRule runs the guarded-by analysis for one spec and records one
// obligation per guarded access site.
func lockRule(c *Ctx, ru *Rule, spec lockSpec) {
	T := c.Named(spec.Pkg, spec.Type)
	if T == nil {
		ru.Err(spec.Pkg+"."+spec.Type, "guarded type does not resolve")
		return
	}
	guarded := map[string]bool{}
	st, _ := T.Underlying().(*types.Struct)
	for _, g := range spec.Guarded {
		guarded[g] = true
		found := false
		parts := strings.Split(g, ".")
		for i := 0; st != nil && i < st.NumFields(); i++ {
			if st.Field(i).Name() == parts[0] {
				if len(parts) == 1 {
					found = true
				} else if ist, ok := st.Field(i).Type().Underlying().(*types.Struct); ok {
					for j := 0; j < ist.NumFields(); j++ {
						if ist.Field(j).Name() == parts[1] {
							found = true
						}
					}
				}
			}
		}
		if !found {
			ru.Err(spec.Pkg+"."+spec.Type+"."+g, "guarded field does not resolve")
		}
	}
	// the mutex path must resolve too
	if spec.ExternalClass == "" {
		cur := types.Type(T)
		for _, part := range strings.Split(spec.Mutex, ".") {
			s, _ := cur.Underlying().(*types.Struct)
			var next types.Type
			for i := 0; s != nil && i < s.NumFields(); i++ {
				if s.Field(i).Name() == part {
					next = s.Field(i).Type()
				}
			}
			if next == nil {
				ru.Err(spec.Pkg+"."+spec.Type+"."+spec.Mutex, "mutex field does not resolve")
				return
			}
			if p, ok := next.(*types.Pointer); ok {
				next = p.Elem()
			}
			cur = next
		}
	}
	thisClass := spec.ExternalClass
	if thisClass == "" {
		// class of the mutex = innermost struct + field
		parts := strings.Split(spec.Mutex, ".")
		if len(parts) == 1 {
			thisClass = spec.Pkg + "." + spec.Type + "." + parts[0]
		} else {
			// walk to the struct that directly holds the mutex
			cur := types.Type(T)
			for _, part := range parts[:len(parts)-1] {
				s, _ := cur.Underlying().(*types.Struct)
				for i := 0; s != nil && i < s.NumFields(); i++ {
					if s.Field(i).Name() == part {
						cur = s.Field(i).Type()
					}
				}
			}
			if p, n := typeNameOf(cur); n != "" {
				thisClass = p + "." + n + "." + parts[len(parts)-1]
			} else {
				thisClass = strings.ReplaceAll(types.TypeString(cur, nil), Mod, "") + "." + parts[len(parts)-1]
			}
		}
	}

	var fns []*ssa.Function
	fns = append(fns, c.FnsOfPkg(spec.Pkg)...)
	for _, p := range spec.OtherPkgs {
		fns = append(fns, c.FnsOfPkg(p)...)
	}
	flows := map[*ssa.Function]*lockFlow{}
	flow := func(f *ssa.Function) *lockFlow {
		if lf := flows[f]; lf != nil {
			return lf
		}
		lf := computeLockFlow(f, heldSet{})
		flows[f] = lf
		return lf
	}

	// collect accesses
	var accs []guardedAccess
	for _, f := range fns {
		if _, ex := spec.Exempt[fnKey(f)]; ex {
			continue
		}
		if _, ex := spec.Exempt[fnKey(c.Root(f))]; ex {
			continue
		}
		allInstrsIn(f, func(in ssa.Instruction) {
			fa, ok := in.(*ssa.FieldAddr)
			if !ok {
				return
			}
			fld, base := fieldAddrOfRaw(fa)
			if fld == nil {
				return
			}
			p, n := typeNameOf(base.Type())
			if p == spec.Pkg && n == spec.Type && guarded[fld.Name()] {
				accs = append(accs, guardedAccess{fn: f, in: in, base: base, field: fld.Name(), typ: n, write: isWriteAccess(fa)})
				return
			}
			// field of an anonymous struct nested by value: "outer.inner"
			if ofa, ok := base.(*ssa.FieldAddr); ok {
				ofld, obase := fieldAddrOfRaw(ofa)
				if ofld != nil {
					op, on := typeNameOf(obase.Type())
					dotted := ofld.Name() + "." + fld.Name()
					if op == spec.Pkg && on == spec.Type && guarded[dotted] {
						accs = append(accs, guardedAccess{fn: f, in: in, base: obase, field: dotted, typ: on, write: isWriteAccess(fa)})
						return
					}
				}
			}
			if p == spec.Pkg {
				for _, of := range spec.Owned[n] {
					if of == fld.Name() || of == "*" {
						accs = append(accs, guardedAccess{fn: f, in: in, base: base, field: fld.Name(), typ: n, write: isWriteAccess(fa), class: true})
					}
				}
			}
		})
	}

	holds := func(h heldSet, key string, mode lockMode, class string) bool {
		if class != "" {
			for _, hl := range h {
				if hl.class == class && hl.mode >= mode {
					return true
				}
			}
			return false
		}
		hl, ok := h[key]
		return ok && hl.mode >= mode
	}

	// requirements per function
	reqs := map[*ssa.Function]map[string]lockReq{}
	var work []*ssa.Function
	addReq := func(f *ssa.Function, q lockReq) {
		if reqs[f] == nil {
			reqs[f] = map[string]lockReq{}
		}
		if _, ok := reqs[f][q.key()]; !ok {
			reqs[f][q.key()] = q
			work = append(work, f)
		}
	}
	isVarRoot := func(f *ssa.Function, root string) bool {
		for _, p := range f.Params {
			if p.Name() == root {
				return true
			}
		}
		for _, fv := range f.FreeVars {
			if fv.Name() == root {
				return true
			}
		}
		return false
	}

	type siteResult struct {
		acc guardedAccess
		ok  bool
		why string
	}
	results := map[ssa.Instruction]*siteResult{}
	pending := map[string][]ssa.Instruction{} // fnKey|reqKey -> access sites depending on it

	for _, a := range accs {
		mode := modeR
		if a.write {
			mode = modeW
		}
		if reason, ok := spec.ReadsUnlockedOK[a.field]; ok && !a.write {
			results[a.in] = &siteResult{a, true, "read allowed without lock: " + reason}
			continue
		}
		h := flow(a.fn).must[a.in]
		basePath := pathOf(a.base)
		key := basePath + "." + spec.Mutex
		class := ""
		if a.class || spec.ExternalClass != "" {
			class = thisClass
		}
		if holds(h, key, mode, class) {
			results[a.in] = &siteResult{a, true, "lock held"}
			continue
		}
		if mode == modeW && holds(h, key, modeR, class) {
			results[a.in] = &siteResult{a, false, "write access with only the read lock held"}
			continue
		}
		if reason, ok := spec.RunsLocked[fnKey(a.fn)]; ok {
			results[a.in] = &siteResult{a, true, "runs with the lock held: " + reason}
			continue
		}
		if reason, ok := spec.RunsLocked[fnKey(c.Root(a.fn))]; ok && a.fn != c.Root(a.fn) {
			results[a.in] = &siteResult{a, true, "closure runs with the lock held: " + reason}
			continue
		}
		if rootIsFresh(a.fn, a.base) {
			results[a.in] = &siteResult{a, true, "object constructed in this function (not yet shared)"}
			continue
		}
		root := pathRoot(basePath)
		if isVarRoot(a.fn, root) || class != "" {
			q := lockReq{root: root, sub: strings.TrimPrefix(basePath, root), mutex: spec.Mutex, mode: mode, class: class,
				origin: fmt.Sprintf("%s.%s in %s", a.typ, a.field, fnKey(a.fn)), pos: instrPos(a.in)}
			if class != "" {
				q.root, q.sub = "", ""
			}
			addReq(a.fn, q)
			results[a.in] = &siteResult{a, true, "requires caller to hold the lock"}
			pending[fnKey(a.fn)+"|"+q.key()] = append(pending[fnKey(a.fn)+"|"+q.key()], a.in)
			continue
		}
		results[a.in] = &siteResult{a, false, fmt.Sprintf("guarded field accessed without %s held (held: %s)", key, fmtHeld(h))}
	}

	// propagate requirements to callers
	failReq := func(f *ssa.Function, q lockReq, why string) {
		for _, in := range pending[fnKey(f)+"|"+q.key()] {
			if r := results[in]; r != nil && r.ok {
				r.ok = false
				r.why = why
			}
		}
	}
	// reverse static call index
	type callSite struct {
		caller *ssa.Function
		in     ssa.CallInstruction
	}
	callers := map[*ssa.Function][]callSite{}
	addrTaken := map[*ssa.Function]bool{}
	closureSites := map[*ssa.Function][]*ssa.MakeClosure{}
	for _, f := range c.Fns {
		allInstrsIn(f, func(in ssa.Instruction) {
			if ci, ok := in.(ssa.CallInstruction); ok {
				if cal := ci.Common().StaticCallee(); cal != nil {
					if o := cal.Origin(); o != nil {
						cal = o
					}
					callers[cal] = append(callers[cal], callSite{f, ci})
				}
			}
			if mc, ok := in.(*ssa.MakeClosure); ok {
				closureSites[mc.Fn.(*ssa.Function)] = append(closureSites[mc.Fn.(*ssa.Function)], mc)
			}
			// function used as a value
			for _, op := range in.Operands(nil) {
				if op == nil || *op == nil {
					continue
				}
				if fv, ok := (*op).(*ssa.Function); ok {
					if ci, isCall := in.(ssa.CallInstruction); isCall && ci.Common().Value == ssa.Value(fv) {
						continue
					}
					if _, isMC := in.(*ssa.MakeClosure); isMC {
						continue
					}
					addrTaken[fv] = true
				}
			}
		})
	}
	done := map[string]bool{}
	propagated := map[string]lockReq{}
	for len(work) > 0 {
		f := work[0]
		work = work[1:]
		keys := make([]string, 0, len(reqs[f]))
		for k := range reqs[f] {
			keys = append(keys, k)
		}
		sort.Strings(keys)
		for _, k := range keys {
			q := reqs[f][k]
			id := fnKey(f) + "|" + k
			if done[id] {
				continue
			}
			done[id] = true
			propagated[id] = q
			orig := q
			fail := func(why string) {
				// fail the original access sites reachable through the chain
				failReq(f, orig, why)
				// and the transitive origins recorded in pending via chain links
			}
			if q.depth > 5 {
				fail("lock requirement could not be discharged within 5 call levels (" + q.origin + ")")
				continue
			}
			if reason, ok := spec.RunsLocked[fnKey(f)]; ok {
				_ = reason
				continue
			}
			checkAt := func(caller *ssa.Function, at ssa.Instruction, h heldSet, argPath string, argVal ssa.Value, desc string) {
				key := argPath + q.sub + "." + q.mutex
				if holds(h, key, q.mode, q.class) {
					return
				}
				if reason, ok := spec.RunsLocked[fnKey(caller)]; ok {
					_ = reason
					return
				}
				if _, ex := spec.Exempt[fnKey(c.Root(caller))]; ex {
					return
				}
				if argVal != nil && rootIsFresh(caller, argVal) {
					return
				}
				root := pathRoot(argPath)
				if q.class != "" || isVarRoot(caller, root) {
					nq := lockReq{root: root, sub: strings.TrimPrefix(argPath, root) + q.sub, mutex: q.mutex, mode: q.mode, class: q.class,
						origin: q.origin, pos: q.pos, depth: q.depth + 1}
					if q.class != "" {
						nq.root, nq.sub = "", ""
					}
					// link: failing the caller's requirement fails our pending sites too
					pid := fnKey(caller) + "|" + nq.key()
					pending[pid] = append(pending[pid], pending[fnKey(f)+"|"+orig.key()]...)
					addReq(caller, nq)
					return
				}
				fail(fmt.Sprintf("%s: %s without holding %s (needed by %s); held: %s", c.Pos(instrPos(at)), desc, key, q.origin, fmtHeld(h)))
			}
			if parent := c.Parent(f); parent != nil {
				// closure: where is it created / how is it used
				for _, mc := range closureSites[f] {
					h := flow(parent).must[mc]
					sync := true
					for _, r := range *mc.Referrers() {
						switch u := r.(type) {
						case *ssa.Go:
							sync = false
						case *ssa.Defer:
						case *ssa.Call:
							if u.Call.Value == ssa.Value(mc) {
								h = flow(parent).must[u]
							} else if syncCallbackCallees[calleeKey(u)] {
								h = flow(parent).must[u]
							} else if _, ok := spec.RunsLocked[calleeKey(u)]; ok {
								h = heldSet{"*": {modeW, thisClass}}
								sync = true
								// callee runs the callback under the lock (tabled)
								hl := heldLock{modeW, thisClass}
								h = heldSet{q.root + q.sub + "." + q.mutex: hl}
							} else {
								sync = false
							}
						case *ssa.Store:
							// stored in a local cell and called later: look at calls through the cell
							if al, ok := u.Addr.(*ssa.Alloc); ok {
								hh, found := heldAtCallsThroughCell(flow(parent), parent, al)
								if found {
									h = hh
								} else {
									sync = false
								}
							} else {
								sync = false
							}
						default:
							sync = false
						}
					}
					if !sync {
						h = heldSet{}
					}
					checkAt(parent, mc, h, capturedRootPath(f, q.root), nil, "closure "+fnKey(f)+" created/used")
				}
				if len(closureSites[f]) == 0 {
					// a function literal without captured variables is a plain
					// function value: find where the parent hands it out
					used := false
					allInstrsIn(parent, func(in ssa.Instruction) {
						for _, op := range in.Operands(nil) {
							if op == nil || *op != ssa.Value(f) {
								continue
							}
							used = true
							h := heldSet{}
							switch u := in.(type) {
							case *ssa.Call:
								if u.Call.Value == ssa.Value(f) || syncCallbackCallees[calleeKey(u)] {
									h = flow(parent).must[u]
								}
							case *ssa.Defer:
								h = flow(parent).must[u]
							}
							checkAt(parent, in, h, q.root, nil, "function literal "+fnKey(f)+" used")
						}
					})
					if !used {
						fail("closure with a lock requirement has no creation site (" + q.origin + ")")
					}
				}
				continue
			}
			sites := callers[f]
			if addrTaken[f] {
				fail(fmt.Sprintf("%s is used as a function value but requires its caller to hold the lock (%s)", fnKey(f), q.origin))
				continue
			}
			if len(sites) == 0 {
				fail(fmt.Sprintf("%s: guarded access in a function with no static caller that holds the lock (%s)", c.Pos(q.pos), q.origin))
				continue
			}
			pi := -1
			for i, p := range f.Params {
				if p.Name() == q.root {
					pi = i
				}
			}
			for _, cs := range sites {
				var h heldSet
				switch cs.in.(type) {
				case *ssa.Go:
					h = heldSet{}
				default:
					h = flow(cs.caller).must[cs.in.(ssa.Instruction)]
				}
				argPath, argVal := "", ssa.Value(nil)
				if q.class == "" {
					if pi < 0 || pi >= len(cs.in.Common().Args) {
						fail("cannot map the locked variable to an argument at " + c.Pos(instrPos(cs.in.(ssa.Instruction))))
						continue
					}
					argVal = cs.in.Common().Args[pi]
					argPath = pathOf(argVal)
				}
				checkAt(cs.caller, cs.in.(ssa.Instruction), h, argPath, argVal, "call of "+fnKey(f))
			}
		}
	}

	// inferred requires-set vs the documented one
	inferred := map[string]bool{}
	for f := range reqs {
		if c.Parent(f) == nil {
			inferred[fnKey(f)] = true
		}
	}
	for _, want := range spec.Requires {
		if c.Fn(want) == nil {
			ru.Err(want, "requires-lock helper does not resolve")
		}
	}

	// report
	sort.Slice(accs, func(i, j int) bool {
		if fnKey(accs[i].fn) != fnKey(accs[j].fn) {
			return fnKey(accs[i].fn) < fnKey(accs[j].fn)
		}
		return instrPos(accs[i].in) < instrPos(accs[j].in)
	})
	for _, a := range accs {
		r := results[a.in]
		rw := "read"
		if a.write {
			rw = "write"
		}
		key := fmt.Sprintf("%s: %s.%s %s under %s", fnKey(a.fn), a.typ, a.field, rw, thisClass)
		if r.ok {
			ru.OK(key, instrPos(a.in), 1, r.why)
		} else {
			ru.Fail(key, instrPos(a.in), r.why, "")
		}
	}

	// balance: no return with a lock of this class (may-)held and no deferred unlock
	for _, f := range fns {
		if _, ok := spec.RunsLocked[fnKey(f)]; ok {
			continue
		}
		if _, ok := spec.Exempt[fnKey(f)]; ok {
			continue
		}
		lf := flow(f)
		for ret, h := range lf.exitMay {
			for k, hl := range h {
				if hl.class != thisClass {
					continue
				}
				if lf.deferredUnlock[k] {
					continue
				}
				ru.Fail(fmt.Sprintf("%s: returns with %s held", fnKey(f), k), instrPos(ret), "a path returns while the lock is still held and no deferred unlock is registered", "")
			}
		}
	}
}

func heldAtCallsThroughCell(lf *lockFlow, fn *ssa.Function, cell *ssa.Alloc) (heldSet, bool) {
	var h heldSet
	found := false
	for _, r := range *cell.Referrers() {
		ld, ok := r.(*ssa.UnOp)
		if !ok {
			continue
		}
		for _, r2 := range *ld.Referrers() {
			switch u := r2.(type) {
			case *ssa.Call:
				if u.Call.Value == ssa.Value(ld) {
					if !found {
						h = lf.must[u].clone()
						found = true
					} else {
						h = meet(h, lf.must[u])
					}
				}
			case *ssa.Go:
				return heldSet{}, true
			}
		}
	}
	return h, found
}

func fmtHeld(h heldSet) string {
	var ks []string
	for k, v := range h {
		m := "W"
		if v.mode == modeR {
			m = "R"
		}
		ks = append(ks, k+"("+m+")")
	}
	sort.Strings(ks)
	if len(ks) == 0 {
		return "none"
	}
	return strings.Join(ks, ",")
}

// ---------------------------------------------------------------------------
// small helpers used by several properties

func constIntObj(c *Ctx, pkg, name string) int64 {
	o := c.Obj(pkg, name)
	k, ok := o.(*types.Const)
	if !ok {
		return -1 << 62
	}
	v, ok := constantInt64(k)
	if !ok {
		return -1 << 62
	}
	return v
}

func objPos(c *Ctx, pkg, name string) token.Pos {
	if o := c.Obj(pkg, name); o != nil {
		return o.Pos()
	}
	return token.NoPos
}
