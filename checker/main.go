// lp2pcheck decides structural necessary conditions of the go-libp2p
// properties in /verif/properties.jsonl from /repo's source (see DESIGN.md).
package main

import (
	"flag"
	"fmt"
	"os"
	"path/filepath"
	"runtime/debug"
	"sort"
	"strconv"
	"strings"
	"time"

	"golang.org/x/tools/go/ssa"
)

type propDef struct {
	run         func(c *Ctx, r *Report)
	explanation string
	notDecided  string
}

var props = map[string]*propDef{}

func register(id string, run func(c *Ctx, r *Report), explanation, notDecided string) {
	props[id] = &propDef{run: run, explanation: explanation, notDecided: notDecided}
}

func main() {
	repo := flag.String("repo", "/repo", "repository to analyse")
	verif := flag.String("verif", "/verif", "verification directory (evidence, known findings)")
	tier := flag.String("tier", "quick", "quick|thorough")
	dump := flag.String("dump", "", "print the SSA of the function with this key and exit")
	list := flag.String("list", "", "list function keys containing this substring and exit")
	calls := flag.String("calls", "", "list the resolved callee keys in the function with this key (and its closures) and exit")
	dumpParams := flag.String("dumpparams", "", "write the parameter / free-variable names of every module function to this file and exit (regenerates the pinned table)")
	var overlays multiFlag
	flag.Var(&overlays, "overlay", "repo-relative-path=replacement-file (repeatable): analyse the tree with this file substituted (self-tests)")
	flag.Parse()
	ids := flag.Args()
	if len(ids) == 1 && ids[0] == "all" {
		ids = nil
		for id := range props {
			ids = append(ids, id)
		}
		sort.Strings(ids)
	}
	seed := 0
	if s := os.Getenv("VERIF_SEED"); s != "" {
		if n, err := strconv.Atoi(s); err == nil {
			if n < 0 {
				n = -n
			}
			seed = n
		}
	}
	t0 := time.Now()
	ov := fixtureOverlay(*repo)
	for _, o := range overlays {
		kv := strings.SplitN(o, "=", 2)
		if len(kv) != 2 {
			fmt.Println("ERROR bad -overlay")
			os.Exit(2)
		}
		b, err := os.ReadFile(kv[1])
		if err != nil {
			fmt.Printf("ERROR overlay: %v\n", err)
			os.Exit(2)
		}
		ov[filepath.Join(*repo, kv[0])] = b
	}
	c, err := load(*repo, ov)
	if err != nil {
		fmt.Printf("ERROR load: %v\n", err)
		os.Exit(2)
	}
	c.Tier = *tier
	loadS := time.Since(t0).Seconds()
	if *dumpParams != "" {
		if err := writePinnedParams(c, *dumpParams); err != nil {
			fmt.Printf("ERROR %v\n", err)
			os.Exit(2)
		}
		return
	}
	if *dump != "" {
		f := c.Fn(*dump)
		if f == nil {
			fmt.Println("no such function")
			os.Exit(2)
		}
		f.WriteTo(os.Stdout)
		for _, a := range f.AnonFuncs {
			a.WriteTo(os.Stdout)
		}
		return
	}
	if *calls != "" {
		f := c.Fn(*calls)
		if f == nil {
			fmt.Println("no such function")
			os.Exit(2)
		}
		var pr func(f *ssa.Function)
		pr = func(f *ssa.Function) {
			allInstrsIn(f, func(in ssa.Instruction) {
				if ci, ok := in.(ssa.CallInstruction); ok {
					fmt.Printf("%s\t%s\t%s\n", c.Pos(instrPos(in)), fnKey(f), describeInstr(ci.(ssa.Instruction)))
				}
			})
			for _, a := range f.AnonFuncs {
				pr(a)
			}
		}
		pr(f)
		return
	}
	if os.Getenv("LP2P_PROBE") == "scopes" {
		probeScopes(c)
		return
	}
	if *list != "" {
		for _, f := range c.Fns {
			if strings.Contains(fnKey(f), *list) {
				fmt.Println(fnKey(f))
			}
		}
		return
	}
	known, err := loadKnown(filepath.Join(*verif, "known_findings.json"))
	if err != nil {
		fmt.Printf("ERROR known_findings.json: %v\n", err)
		os.Exit(2)
	}
	if len(ids) == 0 {
		fmt.Println("usage: lp2pcheck [-tier quick|thorough] <ID>... | all")
		os.Exit(2)
	}
	exit := 0
	for _, id := range ids {
		pd := props[id]
		if pd == nil {
			fmt.Printf("ERROR unknown property %s\n", id)
			os.Exit(2)
		}
		t1 := time.Now()
		rep := &Report{Prop: id, ctx: c}
		func() {
			defer func() {
				if e := recover(); e != nil {
					ru := rep.Rule(id+"-PANIC", "-", 0, "checker panic")
					ru.Err("panic", fmt.Sprintf("%v\n%s", e, debug.Stack()))
				}
			}()
			runControls(c, rep)
			pd.run(c, rep)
			auditExtras(c, rep)
			if c.Tier == "thorough" {
				thoroughExtras(c, rep)
			}
		}()
		wall := time.Since(t1).Seconds() + loadS
		e := rep.Finish(*verif, *tier, seed, wall, known, pd.explanation, pd.notDecided)
		if e == 1 || (e == 2 && exit == 0) {
			exit = e
		}
	}
	os.Exit(exit)
}

type multiFlag []string

func (m *multiFlag) String() string     { return strings.Join(*m, ",") }
func (m *multiFlag) Set(v string) error { *m = append(*m, v); return nil }

// need resolves a function or records an unresolved-anchor error.
func (ru *Rule) need(key string) *ssa.Function {
	f := ru.rep.ctx.Fn(key)
	if f == nil {
		ru.Err(key, "anchor function does not resolve (renamed or deleted?); the rule cannot decide")
	}
	return f
}
