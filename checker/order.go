package main

import (
	"fmt"
	"go/token"
	"go/types"
	"strings"

	"golang.org/x/tools/go/ssa"
)

// Order-abstract evaluation (E7b). Two values A and B of an ordered type are
// touched by a function only through comparisons; their relation is one of
// three orderings. The evaluator interprets a function's CFG under a fixed
// ordering: comparisons between A and B (operators, time.Time methods) are
// decided, every other condition is explored both ways. The result is, per
// ordering, the set of boolean results the function can return — a decision
// table that is independent of how the comparison is spelled.

type ordering int

const (
	ordLT ordering = iota // A < B
	ordEQ
	ordGT
)

func (o ordering) String() string { return [...]string{"A<B", "A==B", "A>B"}[o] }

type tri int

const (
	triUnknown tri = iota
	triFalse
	triTrue
)

func triOf(b bool) tri {
	if b {
		return triTrue
	}
	return triFalse
}

type ordEval struct {
	isA, isB func(ssa.Value) bool
	ord      ordering
	assume   map[ssa.Value]bool
}

func cmpInt(o ordering, swapped bool) int {
	k := int(o) - 1 // -1, 0, 1 for A?B
	if swapped {
		k = -k
	}
	return k
}

func decideOp(op token.Token, k int) (bool, bool) {
	switch op {
	case token.LSS:
		return k < 0, true
	case token.LEQ:
		return k <= 0, true
	case token.GTR:
		return k > 0, true
	case token.GEQ:
		return k >= 0, true
	case token.EQL:
		return k == 0, true
	case token.NEQ:
		return k != 0, true
	}
	return false, false
}

// sides: is (x, y) the pair (A, B) or (B, A)?
func (e *ordEval) sides(x, y ssa.Value) (swapped, ok bool) {
	if e.isA(x) && e.isB(y) {
		return false, true
	}
	if e.isB(x) && e.isA(y) {
		return true, true
	}
	// a variable read through a cell (inside a local predicate: through its free variable): what it holds
	if rx, ry := resolveLoad(x), resolveLoad(y); rx != x || ry != y {
		return e.sides(rx, ry)
	}
	return false, false
}

// cmp3: v is an int-valued three-way comparison of the pair
// (time.Time.Compare, cmp.Compare); returns its sign.
func (e *ordEval) cmp3(v ssa.Value) (int, bool) {
	call, ok := v.(*ssa.Call)
	if !ok {
		return 0, false
	}
	switch calleeKey(call) {
	case "(time.Time).Compare", "cmp.Compare":
		args := callArgs(call)
		if len(args) == 2 {
			if sw, ok := e.sides(args[0], args[1]); ok {
				return cmpInt(e.ord, sw), true
			}
		}
	}
	return 0, false
}

func (e *ordEval) eval(v ssa.Value, pred *ssa.BasicBlock, depth int) tri {
	if depth > 12 {
		return triUnknown
	}
	if b, ok := e.assume[v]; ok {
		return triOf(b)
	}
	switch x := v.(type) {
	case *ssa.Const:
		if b, ok := constBool(x); ok {
			return triOf(b)
		}
	case *ssa.UnOp:
		if x.Op == token.NOT {
			switch e.eval(x.X, pred, depth+1) {
			case triTrue:
				return triFalse
			case triFalse:
				return triTrue
			}
		}
		if x.Op == token.MUL {
			// a result spilled through a local cell (named results, defers)
			if s := resolveLoad(x); s != ssa.Value(x) {
				return e.eval(s, pred, depth+1)
			}
		}
	case *ssa.BinOp:
		if sw, ok := e.sides(x.X, x.Y); ok {
			if r, ok := decideOp(x.Op, cmpInt(e.ord, sw)); ok {
				return triOf(r)
			}
		}
		if k, ok := e.cmp3(x.X); ok {
			if c, isC := constInt(x.Y); isC {
				var r, ok2 bool
				switch {
				case int64(k) < c:
					r, ok2 = decideOp(x.Op, -1)
				case int64(k) == c:
					r, ok2 = decideOp(x.Op, 0)
				default:
					r, ok2 = decideOp(x.Op, 1)
				}
				if ok2 {
					return triOf(r)
				}
			}
		}
		if x.Op == token.EQL || x.Op == token.NEQ {
			// bool == bool
			l, r := e.eval(x.X, pred, depth+1), e.eval(x.Y, pred, depth+1)
			if l != triUnknown && r != triUnknown {
				return triOf((l == r) == (x.Op == token.EQL))
			}
		}
	case *ssa.Call:
		if depth < 8 {
			if t := evalPredicateCall(x, func(v ssa.Value, p *ssa.BasicBlock) tri { return e.eval(v, p, depth+1) }); t != triUnknown {
				return t
			}
		}
		args := callArgs(x)
		if len(args) == 2 {
			if sw, ok := e.sides(args[0], args[1]); ok {
				k := cmpInt(e.ord, sw)
				switch calleeKey(x) {
				case "(time.Time).Before":
					return triOf(k < 0)
				case "(time.Time).After":
					return triOf(k > 0)
				case "(time.Time).Equal":
					return triOf(k == 0)
				}
			}
		}
	case *ssa.Phi:
		if pred != nil && x.Block() != nil {
			for i, p := range x.Block().Preds {
				if p == pred {
					return e.eval(x.Edges[i], nil, depth+1)
				}
			}
		}
	}
	return triUnknown
}

// orderTable evaluates the boolean result `res` of f under each ordering of
// (A, B). possible[o] is the set of results reachable (bit 1: false, bit 2:
// true); ok=false when the walk exceeded its budget.
func orderTable(f *ssa.Function, isA, isB func(ssa.Value) bool, res int) (possible [3]int, ok bool) {
	return orderTableAssume(f, isA, isB, res, nil)
}

func orderTableAssume(f *ssa.Function, isA, isB func(ssa.Value) bool, res int, assume map[ssa.Value]bool) (possible [3]int, ok bool) {
	enterScan(f)
	ok = true
	for o := ordLT; o <= ordGT; o++ {
		e := &ordEval{isA: isA, isB: isB, ord: o, assume: assume}
		budget := 4000
		type state struct {
			b, pred *ssa.BasicBlock
		}
		seen := map[state]bool{}
		var walk func(b, pred *ssa.BasicBlock)
		walk = func(b, pred *ssa.BasicBlock) {
			if budget <= 0 {
				ok = false
				return
			}
			budget--
			st := state{b, pred}
			if seen[st] {
				return
			}
			seen[st] = true
			last := b.Instrs[len(b.Instrs)-1]
			switch t := last.(type) {
			case *ssa.Return:
				if res < len(t.Results) {
					v := t.Results[res]
					// a phi in the returning block is resolved by the edge taken
					switch e.eval(v, pred, 0) {
					case triTrue:
						possible[o] |= 2
					case triFalse:
						possible[o] |= 1
					default:
						possible[o] |= 3
					}
				}
			case *ssa.If:
				switch e.eval(t.Cond, pred, 0) {
				case triTrue:
					walk(b.Succs[0], b)
				case triFalse:
					walk(b.Succs[1], b)
				default:
					walk(b.Succs[0], b)
					walk(b.Succs[1], b)
				}
			case *ssa.Jump:
				walk(b.Succs[0], b)
			}
		}
		if len(f.Blocks) > 0 {
			walk(f.Blocks[0], nil)
		}
	}
	return
}

// condTable evaluates one condition value under each ordering.
func condTable(cond ssa.Value, isA, isB func(ssa.Value) bool) [3]tri {
	var out [3]tri
	for o := ordLT; o <= ordGT; o++ {
		e := &ordEval{isA: isA, isB: isB, ord: o}
		out[o] = e.eval(cond, nil, 0)
	}
	return out
}

func fmtTable(p [3]int) string {
	s := ""
	names := []string{"", "{false}", "{true}", "{false,true}"}
	for o := ordLT; o <= ordGT; o++ {
		if o > 0 {
			s += " "
		}
		s += o.String() + "→" + names[p[o]]
	}
	return s
}

// edgeExcl: the edge is taken only when the ordering of (A, B) is none of
// `excluded` — however the comparison is spelled.
func edgeExcl(isA, isB func(ssa.Value) bool, excluded ...ordering) EdgePred {
	return func(b *ssa.BasicBlock, s int) bool {
		ifi := ifOf(b)
		if ifi == nil {
			return false
		}
		tab := condTable(condOf(b), isA, isB)
		for _, o := range excluded {
			if tab[o] == triUnknown {
				return false
			}
			takes := 1
			if tab[o] == triTrue {
				takes = 0
			}
			if takes == s {
				return false
			}
		}
		return true
	}
}

// ---------------------------------------------------------------------------
// Boolean-abstract decision tables: the CFG is interpreted under every truth
// assignment to a few atomic conditions; conditions that are none of the
// atoms are explored both ways. For each assignment the walker reports
// whether an event instruction is reached on some / on every path to a return.

type atomPred func(v ssa.Value) (isAtom bool, sameSense bool)

type boolOutcome struct {
	some, all bool // event reached on some path / on every path
	paths     int
}

func boolTable(f *ssa.Function, atoms []atomPred, event func(ssa.Instruction) bool) (map[int]boolOutcome, bool) {
	return boolTableFrom(f, nil, atoms, event)
}

// boolTableFrom: the table over the paths that start right after `start` (nil: function entry).
func boolTableFrom(f *ssa.Function, start ssa.Instruction, atoms []atomPred, event func(ssa.Instruction) bool) (map[int]boolOutcome, bool) {
	enterScan(f)
	out := map[int]boolOutcome{}
	ok := true
	n := len(atoms)
	for a := 0; a < 1<<n; a++ {
		val := func(v ssa.Value) tri {
			for i, at := range atoms {
				if is, same := at(v); is {
					t := a&(1<<i) != 0
					return triOf(t == same)
				}
			}
			return triUnknown
		}
		var eval func(v ssa.Value, pred *ssa.BasicBlock, d int) tri
		eval = func(v ssa.Value, pred *ssa.BasicBlock, d int) tri {
			if d > 12 {
				return triUnknown
			}
			if t := val(v); t != triUnknown {
				return t
			}
			switch x := v.(type) {
			case *ssa.Const:
				if b, isB := constBool(x); isB {
					return triOf(b)
				}
			case *ssa.UnOp:
				if x.Op == token.NOT {
					switch eval(x.X, pred, d+1) {
					case triTrue:
						return triFalse
					case triFalse:
						return triTrue
					}
				}
				if x.Op == token.MUL {
					if s := resolveLoad(x); s != ssa.Value(x) {
						return eval(s, pred, d+1)
					}
				}
			case *ssa.Call:
				if d < 8 {
					if t := evalPredicateCall(x, func(v ssa.Value, p *ssa.BasicBlock) tri { return eval(v, p, d+1) }); t != triUnknown {
						return t
					}
				}
			case *ssa.Phi:
				if pred != nil {
					for i, p := range x.Block().Preds {
						if p == pred {
							return eval(x.Edges[i], nil, d+1)
						}
					}
				}
			}
			return triUnknown
		}
		res := boolOutcome{all: true}
		budget := 20000
		startDone := false
		type key struct {
			b, p *ssa.BasicBlock
			seen bool
			sig  string
		}
		visited := map[key]bool{}
		sigOf := func(m map[*ssa.Phi]tri) string {
			var ks []string
			for p, t := range m {
				ks = append(ks, fmt.Sprintf("%s=%d", p.Name(), t))
			}
			sortStrings(ks)
			return strings.Join(ks, ",")
		}
		// bool phis must be resolved by the edge taken when they are *defined*, so carry their values along
		var walk func(b, pred *ssa.BasicBlock, seen bool, phiv map[*ssa.Phi]tri)
		walk = func(b, pred *ssa.BasicBlock, seen bool, phiv map[*ssa.Phi]tri) {
			if budget <= 0 {
				ok = false
				return
			}
			budget--
			k := key{b, pred, seen, sigOf(phiv)}
			if visited[k] {
				return
			}
			visited[k] = true
			np := phiv
			for _, in := range b.Instrs {
				p, isPhi := in.(*ssa.Phi)
				if !isPhi {
					break
				}
				if bt, isB := p.Type().Underlying().(*types.Basic); !isB || bt.Kind() != types.Bool {
					continue
				}
				if pred == nil {
					continue
				}
				for i, pb := range b.Preds {
					if pb == pred {
						var t tri
						if q, isQ := p.Edges[i].(*ssa.Phi); isQ {
							t = phiv[q]
						} else {
							t = eval(p.Edges[i], nil, 0)
						}
						if np == nil || &np == &phiv {
							np = map[*ssa.Phi]tri{}
							for kk, vv := range phiv {
								np[kk] = vv
							}
						}
						np[p] = t
					}
				}
			}
			skip := start != nil && pred == nil && b == start.Block() && !startDone
			for _, in := range b.Instrs {
				if skip {
					if in == start {
						skip = false
						startDone = true
					}
					continue
				}
				if event(in) {
					seen = true
				}
				switch in.(type) {
				case *ssa.Return:
					res.paths++
					if seen {
						res.some = true
					} else {
						res.all = false
					}
					return
				case *ssa.Panic:
					return
				}
			}
			if ifi := ifOf(b); ifi != nil {
				t := triUnknown
				base, neg := stripNot(ifi.Cond)
				if p, isPhi := base.(*ssa.Phi); isPhi {
					if pv, known := np[p]; known && pv != triUnknown {
						t = pv
						if neg {
							if t == triTrue {
								t = triFalse
							} else {
								t = triTrue
							}
						}
					}
				}
				if t == triUnknown {
					t = eval(ifi.Cond, pred, 0)
				}
				switch t {
				case triTrue:
					walk(b.Succs[0], b, seen, np)
				case triFalse:
					walk(b.Succs[1], b, seen, np)
				default:
					walk(b.Succs[0], b, seen, np)
					walk(b.Succs[1], b, seen, np)
				}
				return
			}
			for _, s := range b.Succs {
				walk(s, b, seen, np)
			}
		}
		if start != nil {
			walk(start.Block(), nil, false, nil)
		} else if len(f.Blocks) > 0 {
			walk(f.Blocks[0], nil, false, nil)
		}
		if res.paths == 0 {
			res.all = false
		}
		out[a] = res
	}
	return out, ok
}

// boolReturnTable: like boolTable, but reports for every assignment of the
// atoms the set of values the resIdx-th (boolean) result can take
// (bit 1: false, bit 2: true).
func boolReturnTable(f *ssa.Function, atoms []atomPred, resIdx int) (map[int]int, bool) {
	enterScan(f)
	// the value of the result at each return, with the operand every phi received on the way there (a boolean
	// computed into a variable several blocks before it is returned — `return !blocked` — is evaluated on what it was
	// computed from)
	out := map[int]int{}
	ok := true
	for _, ret := range returnsOf(f) {
		if resIdx >= len(ret.Results) {
			continue
		}
		res, okR := boolValueAt(f, ret, ret.Results[resIdx], atoms)
		if !okR {
			ok = false
		}
		for a, bits := range res {
			out[a] |= bits
		}
	}
	return out, ok
}

// boolValueAt: for every truth assignment of the atoms, the set of values (bit 1: false, bit 2: true) the boolean
// SSA value v can have when control reaches `site`. The walker carries the operand every boolean phi received on
// the path (so a condition stored in a variable, `ok := a && b`, is evaluated on what it was computed from);
// conditions that are not functions of the atoms are explored both ways.
func boolValueAt(f *ssa.Function, site ssa.Instruction, v ssa.Value, atoms []atomPred) (map[int]int, bool) {
	enterScan(f)
	out := map[int]int{}
	okAll := true
	n := len(atoms)
	for a := 0; a < 1<<n; a++ {
		val := func(x ssa.Value) tri {
			for i, at := range atoms {
				if is, same := at(x); is {
					t := a&(1<<i) != 0
					return triOf(t == same)
				}
			}
			return triUnknown
		}
		type env map[*ssa.Phi]ssa.Value
		var eval func(x ssa.Value, e env, d int) tri
		eval = func(x ssa.Value, e env, d int) tri {
			if d > 14 {
				return triUnknown
			}
			if t := val(x); t != triUnknown {
				return t
			}
			switch y := x.(type) {
			case *ssa.Const:
				if b, isB := constBool(y); isB {
					return triOf(b)
				}
			case *ssa.UnOp:
				if y.Op == token.NOT {
					switch eval(y.X, e, d+1) {
					case triTrue:
						return triFalse
					case triFalse:
						return triTrue
					}
				}
				if y.Op == token.MUL {
					if s := resolveLoad(y); s != ssa.Value(y) {
						return eval(s, e, d+1)
					}
				}
			case *ssa.BinOp:
				// equality of two booleans (`aLimited != bLimited`)
				if y.Op == token.EQL || y.Op == token.NEQ {
					if bt, isB := y.X.Type().Underlying().(*types.Basic); isB && bt.Info()&types.IsBoolean != 0 {
						l, r := eval(y.X, e, d+1), eval(y.Y, e, d+1)
						if l != triUnknown && r != triUnknown {
							return triOf((l == r) == (y.Op == token.EQL))
						}
					}
				}
			case *ssa.Call:
				if d < 8 {
					t := evalPredicateCall(y, func(v ssa.Value, p *ssa.BasicBlock) tri {
						if phi, isPhi := v.(*ssa.Phi); isPhi && p != nil {
							for i, pb := range phi.Block().Preds {
								if pb == p {
									return eval(phi.Edges[i], e, d+1)
								}
							}
						}
						return eval(v, e, d+1)
					})
					if t != triUnknown {
						return t
					}
				}
			case *ssa.Phi:
				if op, ok := e[y]; ok {
					return eval(op, e, d+1)
				}
			case *ssa.ChangeType:
				return eval(y.X, e, d+1)
			}
			return triUnknown
		}
		budget := 40000
		seen := map[string]bool{}
		var walk func(b, pred *ssa.BasicBlock, e env)
		walk = func(b, pred *ssa.BasicBlock, e env) {
			if budget <= 0 {
				okAll = false
				return
			}
			budget--
			// phis of b take the operand of the edge we came over
			ne := e
			if pred != nil {
				idx := -1
				for i, p := range b.Preds {
					if p == pred {
						idx = i
					}
				}
				for _, in := range b.Instrs {
					p, isPhi := in.(*ssa.Phi)
					if !isPhi {
						break
					}
					if idx >= 0 && idx < len(p.Edges) {
						if &ne == &e || len(ne) == len(e) {
							c := env{}
							for k, x := range e {
								c[k] = x
							}
							ne = c
						}
						op := p.Edges[idx]
						// resolve chains at binding time (the operand's own phi has the value it had then)
						if q, isQ := op.(*ssa.Phi); isQ {
							if r, ok := e[q]; ok {
								op = r
							}
						}
						ne[p] = op
					}
				}
			}
			// state key: block + the truth of every bound boolean phi (enough to cut revisits)
			key := fmt.Sprintf("%d|", b.Index)
			for _, bb := range f.Blocks {
				for _, in := range bb.Instrs {
					p, isPhi := in.(*ssa.Phi)
					if !isPhi {
						break
					}
					if _, bound := ne[p]; bound {
						key += fmt.Sprintf("%s=%d;", p.Name(), eval(p, ne, 0))
					}
				}
			}
			if seen[key] {
				return
			}
			seen[key] = true
			for _, in := range b.Instrs {
				if in == site {
					switch eval(v, ne, 0) {
					case triTrue:
						out[a] |= 2
					case triFalse:
						out[a] |= 1
					default:
						out[a] |= 3
					}
					return
				}
			}
			switch t := b.Instrs[len(b.Instrs)-1].(type) {
			case *ssa.If:
				switch eval(t.Cond, ne, 0) {
				case triTrue:
					walk(b.Succs[0], b, ne)
				case triFalse:
					walk(b.Succs[1], b, ne)
				default:
					walk(b.Succs[0], b, ne)
					walk(b.Succs[1], b, ne)
				}
			case *ssa.Jump:
				walk(b.Succs[0], b, ne)
			}
		}
		if len(f.Blocks) > 0 {
			walk(f.Blocks[0], nil, env{})
		}
	}
	return out, okAll
}

// orderReach: under each ordering of (A, B), can control reach a return satisfying isTarget? Conditions that do not
// depend on the ordering are explored both ways (so `found && a > b`, a hoisted boolean, or nested ifs are the same).
func orderReach(f *ssa.Function, isA, isB func(ssa.Value) bool, isTarget func(*ssa.Return) bool) (reach [3]bool, ok bool) {
	enterScan(f)
	ok = true
	for o := ordLT; o <= ordGT; o++ {
		e := &ordEval{isA: isA, isB: isB, ord: o}
		budget := 8000
		type state struct{ b, pred *ssa.BasicBlock }
		seen := map[state]bool{}
		var walk func(b, pred *ssa.BasicBlock)
		walk = func(b, pred *ssa.BasicBlock) {
			if budget <= 0 {
				ok = false
				return
			}
			budget--
			st := state{b, pred}
			if seen[st] {
				return
			}
			seen[st] = true
			switch t := b.Instrs[len(b.Instrs)-1].(type) {
			case *ssa.Return:
				if isTarget(t) {
					reach[o] = true
				}
			case *ssa.If:
				switch e.eval(t.Cond, pred, 0) {
				case triTrue:
					walk(b.Succs[0], b)
				case triFalse:
					walk(b.Succs[1], b)
				default:
					walk(b.Succs[0], b)
					walk(b.Succs[1], b)
				}
			case *ssa.Jump:
				walk(b.Succs[0], b)
			}
		}
		if len(f.Blocks) > 0 {
			walk(f.Blocks[0], nil)
		}
	}
	return
}

// evalPredicateCall: the boolean a plain call of a local predicate answers (a closure, or a helper that did not
// exist at the pinned commit, with one boolean result) under the caller's evaluator: the predicate's body is
// walked from its entry, every branch condition must evaluate (otherwise unknown), and the value returned on that
// path is evaluated. Single-expression predicates are the one-block case.
func evalPredicateCall(call *ssa.Call, ev func(v ssa.Value, pred *ssa.BasicBlock) tri) tri {
	if call.Call.IsInvoke() {
		return triUnknown
	}
	g := call.Call.StaticCallee()
	if g == nil || !inlinable(g) || len(g.Blocks) == 0 || g.Signature.Results().Len() != 1 {
		return triUnknown
	}
	if bt, ok := g.Signature.Results().At(0).Type().Underlying().(*types.Basic); !ok || bt.Kind() != types.Bool {
		return triUnknown
	}
	// pure?
	for _, b := range g.Blocks {
		for _, in := range b.Instrs {
			switch in.(type) {
			case *ssa.Store, *ssa.MapUpdate, *ssa.Send, *ssa.Go, *ssa.Defer, *ssa.Panic:
				return triUnknown
			}
		}
	}
	// walk the body; a branch condition the evaluator cannot decide is explored both ways, and the answer is
	// definite when every explored path returns the same truth
	type env map[*ssa.Phi]ssa.Value
	evalV := func(v ssa.Value, e env) tri {
		neg := false
		for d := 0; d < 8; d++ {
			base, n := stripNotRaw(v)
			if n {
				neg = !neg
			}
			v = base
			phi, isPhi := v.(*ssa.Phi)
			if !isPhi {
				break
			}
			op, bound := e[phi]
			if !bound {
				break
			}
			v = op
		}
		t := ev(v, nil)
		if neg {
			switch t {
			case triTrue:
				return triFalse
			case triFalse:
				return triTrue
			}
		}
		return t
	}
	seenT, seenF, seenU := false, false, false
	budget := 64
	var walk func(b, pred *ssa.BasicBlock, e env, depth int)
	walk = func(b, pred *ssa.BasicBlock, e env, depth int) {
		if budget <= 0 || depth > 40 {
			seenU = true
			return
		}
		budget--
		if pred != nil {
			ne := env{}
			for k, v := range e {
				ne[k] = v
			}
			for _, in := range b.Instrs {
				phi, isPhi := in.(*ssa.Phi)
				if !isPhi {
					break
				}
				for i, pb := range b.Preds {
					if pb == pred {
						op := phi.Edges[i]
						if q, isQ := op.(*ssa.Phi); isQ {
							if r, ok := e[q]; ok {
								op = r
							}
						}
						ne[phi] = op
					}
				}
			}
			e = ne
		}
		switch t := b.Instrs[len(b.Instrs)-1].(type) {
		case *ssa.Return:
			if len(t.Results) != 1 {
				seenU = true
				return
			}
			switch evalV(t.Results[0], e) {
			case triTrue:
				seenT = true
			case triFalse:
				seenF = true
			default:
				seenU = true
			}
		case *ssa.Jump:
			walk(b.Succs[0], b, e, depth+1)
		case *ssa.If:
			switch evalV(t.Cond, e) {
			case triTrue:
				walk(b.Succs[0], b, e, depth+1)
			case triFalse:
				walk(b.Succs[1], b, e, depth+1)
			default:
				walk(b.Succs[0], b, e, depth+1)
				walk(b.Succs[1], b, e, depth+1)
			}
		default:
			seenU = true
		}
	}
	walk(g.Blocks[0], nil, env{}, 0)
	switch {
	case seenU || (seenT && seenF):
		return triUnknown
	case seenT:
		return triTrue
	case seenF:
		return triFalse
	}
	return triUnknown
}
