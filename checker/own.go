package main

import (
	"fmt"
	"go/token"
	"go/types"
	"os"
	"strings"

	"golang.org/x/tools/go/ssa"
)

// Engine E2: ownership of a handle that must be released exactly by its
// owner. Built on the Cut query.

type ownSpec struct {
	what     string   // "scope", "conn", ...
	relNames []string // method names that release the handle
	// ifaceReleasesOnError: interface methods (keys, wildcard allowed) that
	// release the handle argument on every error return (their
	// implementation in the module is verified separately by the caller).
	ifaceReleasesOnError []string
	// takesOwnership: callees that always take ownership of the handle
	// argument (success and error), with the reason.
	takesOwnership map[string]string
	// listedTransfersOnly: passing the handle to a callee with an error
	// result is NOT a transfer of ownership on success (streams handed to
	// negotiation helpers stay ours); only takesOwnership entries, dynamic
	// handler calls, stores, returns and releases count.
	listedTransfersOnly bool
	// borrows: callees (keys, wildcard allowed) that only look at the handle: passing it to them is never a
	// hand-over (connection gater hooks, loggers).
	borrows []string
	depth   int
}

type ownSummary struct {
	releasesOnError bool   // every error return released / handed on the param
	consumedOnOK    bool   // every success return stored / returned / handed on the param
	witnessOK       string // witness when consumedOnOK is false
}

type ownCtx struct {
	c    *Ctx
	spec ownSpec
	memo map[string]*ownSummary
	// scopes: handle set of each function currently being analysed (a
	// closure resolves calls of sibling closures through its parent's set)
	scopes  map[*ssa.Function]*handleSet
	relMemo map[*ssa.Function]int // closure -> 0 unknown/in progress, 1 must-release, 2 not
	// closures analysed: fn -> witness ("" = ok)
}

func newOwn(c *Ctx, spec ownSpec) *ownCtx {
	if spec.depth == 0 {
		spec.depth = 3
	}
	return &ownCtx{c: c, spec: spec, memo: map[string]*ownSummary{}, scopes: map[*ssa.Function]*handleSet{}, relMemo: map[*ssa.Function]int{}}
}

// aliases of the handle inside one function
type handleSet struct {
	vals  map[ssa.Value]bool // SSA values that are the handle
	cells map[ssa.Value]bool // local cells (Alloc / FreeVar) holding it
}

// addWrappers extends the alias set with objects built around the handle:
// the (first) result of a call that takes an alias as a non-receiver
// argument and returns a pointer or interface (pnet conn, secured conn,
// tracing conn, ...). Closing the wrapper closes the handle.
func (hs *handleSet) addWrappers(fn *ssa.Function) {
	changed := true
	for changed {
		changed = false
		allInstrsIn(fn, func(in ssa.Instruction) {
			call, ok := in.(*ssa.Call)
			if !ok {
				return
			}
			passes := false
			for ai, a := range callArgs(call) {
				if ai == 0 && (call.Common().IsInvoke() || call.Common().Signature().Recv() != nil) {
					continue
				}
				if hs.is(a) {
					passes = true
				}
			}
			if !passes {
				return
			}
			res := call.Common().Signature().Results()
			if res.Len() == 0 {
				return
			}
			switch res.At(0).Type().Underlying().(type) {
			case *types.Pointer, *types.Interface:
			default:
				return
			}
			var v ssa.Value = call
			if res.Len() > 1 {
				v = nil
				for _, r := range *call.Referrers() {
					if e, ok := r.(*ssa.Extract); ok && e.Index == 0 {
						v = e
					}
				}
			}
			if v != nil && !hs.vals[v] {
				hs.vals[v] = true
				changed = true
			}
		})
		// cells holding wrappers
		allInstrsIn(fn, func(in ssa.Instruction) {
			if st, ok := in.(*ssa.Store); ok {
				if al, isAl := st.Addr.(*ssa.Alloc); isAl && !hs.cells[al] && hs.is(st.Val) {
					if _, isStruct := al.Type().(*types.Pointer).Elem().Underlying().(*types.Struct); !isStruct {
						hs.cells[al] = true
						changed = true
					}
				}
			}
		})
	}
}

func (hs *handleSet) is(v ssa.Value) bool {
	if v == nil {
		return false
	}
	seen := map[ssa.Value]bool{}
	var walk func(v ssa.Value) bool
	walk = func(v ssa.Value) bool {
		if seen[v] {
			return false
		}
		seen[v] = true
		if hs.vals[v] {
			return true
		}
		switch x := v.(type) {
		case *ssa.Parameter:
			// inside a helper the path search walked into, a parameter is the caller's argument (see frameArgs)
			if a, ok := frameArgs[x]; ok {
				return walk(a)
			}
			return false
		case *ssa.ChangeInterface:
			return walk(x.X)
		case *ssa.MakeInterface:
			return walk(x.X)
		case *ssa.ChangeType:
			return walk(x.X)
		case *ssa.TypeAssert:
			return walk(x.X)
		case *ssa.Extract:
			if ta, ok := x.Tuple.(*ssa.TypeAssert); ok && x.Index == 0 {
				return walk(ta.X)
			}
		case *ssa.Phi:
			for _, e := range x.Edges {
				if walk(e) {
					return true
				}
			}
		case *ssa.UnOp:
			if x.Op == token.MUL && (hs.cells[x.X] || hs.vals[x.X]) {
				return true
			}
			// read through the free variable of a closure: the enclosing function's cell
			if fv, isFV := x.X.(*ssa.FreeVar); isFV && x.Op == token.MUL {
				if al := boundCell(fv); al != nil && hs.cells[al] {
					return true
				}
			}
		}
		return false
	}
	return walk(v)
}

// build the alias set for handle value h in fn: cells are Allocs into which
// an alias is stored.
func buildHandleSet(fn *ssa.Function, roots []ssa.Value, cells []ssa.Value) *handleSet {
	hs := &handleSet{vals: map[ssa.Value]bool{}, cells: map[ssa.Value]bool{}}
	for _, r := range roots {
		hs.vals[r] = true
	}
	for _, cl := range cells {
		hs.cells[cl] = true
	}
	changed := true
	for changed {
		changed = false
		allInstrsIn(fn, func(in ssa.Instruction) {
			st, ok := in.(*ssa.Store)
			if !ok {
				return
			}
			if al, isAl := st.Addr.(*ssa.Alloc); isAl && !hs.cells[al] && hs.is(st.Val) && !isNamedResultCell(fn, al) {
				// only local variable cells (not struct literals: those are heap owners)
				if _, isStruct := al.Type().(*types.Pointer).Elem().Underlying().(*types.Struct); !isStruct {
					hs.cells[al] = true
					changed = true
				}
			}
			// a struct built in this function around the handle is a local wrapper:
			// the obligation continues on the wrapper object
			if root := localAllocRoot(st.Addr); root != nil && !hs.vals[root] && hs.is(st.Val) {
				if _, isField := st.Addr.(*ssa.FieldAddr); isField {
					hs.vals[root] = true
					changed = true
				}
			}
		})
	}
	return hs
}

// localAllocRoot: addr is a field (chain) of a struct allocated in this function.
func localAllocRoot(addr ssa.Value) *ssa.Alloc {
	for {
		switch x := addr.(type) {
		case *ssa.FieldAddr:
			addr = x.X
		case *ssa.Alloc:
			if _, isStruct := x.Type().(*types.Pointer).Elem().Underlying().(*types.Struct); isStruct {
				return x
			}
			return nil
		default:
			return nil
		}
	}
}

func (o *ownCtx) isRelease(in ssa.Instruction, hs *handleSet) bool {
	ci, ok := in.(ssa.CallInstruction)
	if !ok {
		return false
	}
	if _, isGo := in.(*ssa.Go); isGo {
		return false
	}
	a := callArgs(ci)
	if len(a) == 0 || !hs.is(a[0]) {
		return false
	}
	return calleeNameIs(in, o.spec.relNames...)
}

// consumption: the instruction ends this function's responsibility for the handle.
func (o *ownCtx) consumes(fn *ssa.Function, in ssa.Instruction, hs *handleSet, depth int) (bool, string) {
	if o.isRelease(in, hs) {
		return true, "release"
	}
	switch x := in.(type) {
	case *ssa.Store:
		if hs.is(x.Val) {
			if root := localAllocRoot(x.Addr); root != nil {
				if _, isField := x.Addr.(*ssa.FieldAddr); isField {
					return false, "" // local wrapper (tracked as an alias)
				}
			}
			switch a := x.Addr.(type) {
			case *ssa.FieldAddr, *ssa.IndexAddr, *ssa.Global:
				return true, "stored in an owner object"
			case *ssa.Alloc:
				if _, isStruct := a.Type().(*types.Pointer).Elem().Underlying().(*types.Struct); isStruct {
					return true, "stored in an owner object"
				}
			case *ssa.FreeVar:
				return true, "stored in a captured variable"
			}
		}
	case *ssa.MapUpdate:
		if hs.is(x.Value) || hs.is(x.Key) {
			return true, "stored in a map"
		}
	case *ssa.Send:
		if hs.is(x.X) {
			return true, "sent on a channel"
		}
	case *ssa.MakeClosure:
		// creating a closure is not a hand-over by itself; see the uses below
	case *ssa.MakeInterface:
		// boxing alone is not a consumption
	case ssa.CallInstruction:
		cc := x.Common()
		// calling / deferring / spawning a local closure
		if tg := o.callTargets(fn, x); len(tg) > 0 {
			all := true
			for _, t := range tg {
				if !o.mustRelease(t) {
					all = false
				}
			}
			if all {
				return true, "calls a closure that releases or hands on the " + o.spec.what + " on all its paths"
			}
		}
		// a closure that may release, handed to a goroutine / registered as a callback
		for _, a := range cc.Args {
			for _, t := range o.closureValues(fn, a) {
				if o.mayRelease(t, map[*ssa.Function]bool{}) {
					if _, isGo := in.(*ssa.Go); isGo {
						return true, "goroutine receives the releasing callback"
					}
					k := calleeKey(x)
					if k == "context.AfterFunc" || k == "time.AfterFunc" {
						return true, "registered as a cleanup callback"
					}
				}
			}
		}
		args := callArgs(x)
		idx := -1
		for i, a := range args {
			if i == 0 && !cc.IsInvoke() && cc.Signature().Recv() != nil && hs.is(a) {
				// method call on the handle itself that is not a release: not a transfer
				continue
			}
			if i == 0 && cc.IsInvoke() {
				continue
			}
			if hs.is(a) {
				idx = i
			}
		}
		if idx < 0 {
			return false, ""
		}
		k := calleeKey(x)
		for _, bk := range o.spec.borrows {
			if keyMatch(k, bk) {
				return false, ""
			}
		}
		if _, isGo := in.(*ssa.Go); isGo {
			return true, "handed to a goroutine"
		}
		if reason, ok := o.spec.takesOwnership[k]; ok {
			return true, "callee takes ownership: " + reason
		}
		if !cc.IsInvoke() && cc.StaticCallee() == nil {
			if _, isBuiltin := cc.Value.(*ssa.Builtin); !isBuiltin {
				return true, "handed to a dynamic callee (handler / callback)"
			}
		}
		// callee without error result: plain transfer
		sig := cc.Signature()
		hasErr := sig.Results().Len() > 0 && types.Identical(sig.Results().At(sig.Results().Len()-1).Type(), types.Universe.Lookup("error").Type())
		if !hasErr {
			callee := cc.StaticCallee()
			if callee == nil {
				return true, "handed to a dynamic callee"
			}
			if callee.Blocks != nil && inModule(callee) {
				if depth < o.spec.depth && idx < len(callee.Params) {
					sum := o.summary(callee, idx, depth+1)
					if sum.releasesOnError && sum.consumedOnOK {
						return true, "callee keeps or releases it (" + k + ")"
					}
				}
				// a constructor-like callee whose result wraps the handle
				if sig.Results().Len() > 0 {
					switch sig.Results().At(0).Type().Underlying().(type) {
					case *types.Pointer, *types.Interface:
						if depth < o.spec.depth && idx < len(callee.Params) && o.summary(callee, idx, depth+1).consumedOnOK {
							return true, "wrapped by " + k
						}
					}
				}
				return false, ""
			}
			// external function: a transfer only if it returns an object
			if sig.Results().Len() > 0 {
				switch sig.Results().At(0).Type().Underlying().(type) {
				case *types.Pointer, *types.Interface:
					return true, "wrapped by " + k
				}
			}
			return false, ""
		}
		if o.spec.listedTransfersOnly {
			return false, ""
		}
		for _, ik := range o.spec.ifaceReleasesOnError {
			if keyMatch(k, ik) {
				return true, "callee releases on error and owns on success (" + k + ")"
			}
		}
		if callee := cc.StaticCallee(); callee != nil && callee.Blocks != nil && depth < o.spec.depth && inModule(callee) {
			pi := idx
			if pi < len(callee.Params) {
				sum := o.summary(callee, pi, depth+1)
				if sum.releasesOnError {
					return true, "callee releases on error (" + k + ")"
				}
			}
		}
	}
	return false, ""
}

// transferEdge: the edge on which a call that received the handle reported
// success (err == nil): ownership has moved to the callee / its result.
func (o *ownCtx) transferEdges(fn *ssa.Function, hs *handleSet) EdgePred {
	return func(b *ssa.BasicBlock, s int) bool {
		if o.spec.listedTransfersOnly {
			return false
		}
		i := ifOf(b)
		if i == nil {
			return false
		}
		x, nilOnTrue, ok := nilCmp(condOf(b))
		if !ok {
			return false
		}
		ci, idx := resultOf(strip(x))
		if ci == nil {
			return false
		}
		sig := ci.Common().Signature()
		if idx != sig.Results().Len()-1 {
			return false
		}
		passes := false
		for ai, a := range callArgs(ci) {
			if ai == 0 && (ci.Common().IsInvoke() || ci.Common().Signature().Recv() != nil) {
				continue
			}
			if hs.is(a) {
				passes = true
			}
		}
		if !passes {
			return false
		}
		// when the call's result is tracked as a wrapper of the handle the
		// obligation continues on the wrapper instead of being transferred
		if cv, isVal := ci.(ssa.Value); isVal {
			if hs.vals[cv] {
				return false
			}
			if refs := cv.Referrers(); refs != nil {
				for _, r := range *refs {
					if e, ok := r.(*ssa.Extract); ok && e.Index == 0 && hs.vals[e] {
						return false
					}
				}
			}
		}
		return (s == 0) == nilOnTrue // the nil edge
	}
}

func returnCarries(ret *ssa.Return, hs *handleSet) bool {
	for i := range ret.Results {
		v := ret.Results[i]
		if u, ok := v.(*ssa.UnOp); ok && u.Op == token.MUL {
			if al, isAl := u.X.(*ssa.Alloc); isAl && isNamedResultCell(ret.Parent(), al) {
				// spilled named result: what was stored for this return
				if lv := loadedValue(u); lv != nil {
					if hs.is(lv) || hs.is(strip2(lv)) {
						return true
					}
					continue
				}
			}
		}
		if hs.is(v) || hs.is(strip2(v)) {
			return true
		}
	}
	// tail call handing the handle on: `return f(.., h, ..)` — every result
	// of the return is the corresponding result of one call that takes h
	var tail ssa.CallInstruction
	for i := range ret.Results {
		ci, idx := resultOf(strip2(ret.Results[i]))
		if ci == nil || idx != i || (tail != nil && ci != tail) {
			return false
		}
		tail = ci
	}
	if tail == nil || tail.Common().Signature().Results().Len() != len(ret.Results) {
		return false
	}
	for ai, a := range callArgs(tail) {
		if ai == 0 && (tail.Common().IsInvoke() || tail.Common().Signature().Recv() != nil) {
			continue // a method of the handle itself is not a hand-over
		}
		if hs.is(a) {
			return true
		}
	}
	return false
}

// held: from the start, can an exit be reached with the handle still owned
// by this function? exitClass: "all", "error", "success".
func (o *ownCtx) held(fn *ssa.Function, hs *handleSet, from []ssa.Instruction, fromEdges []CFGEdge, exitClass string, extraCut EdgePred, loopHead ssa.Instruction, depth int) (string, int) {
	if _, ok := o.scopes[fn]; !ok {
		o.scopes[fn] = hs
	}
	nilEdge := edgeNil(func(v ssa.Value) bool { return hs.is(v) }, true)
	if exitClass == "all" && errResultIndex(fn) >= 0 {
		if w, n := o.held(fn, hs, from, fromEdges, "error", extraCut, loopHead, depth); w != "" {
			return w, n
		}
		return o.held(fn, hs, from, fromEdges, "success", extraCut, loopHead, depth)
	}
	// deferred conditional release: defer func(){ if err != nil { h.Done() } }() — it covers the
	// error exits it dominates (the Defer instruction acts as a separator for error exits only)
	condDefers := map[ssa.Instruction]bool{}
	// guardCells: the error-typed variables of fn whose nil-ness the deferred closures test before releasing.
	// The deferred release covers an error exit only if that exit's error is the tested variable: the named
	// error result, or the very cell the return loads its error from. (`if err != nil` in the closure says
	// nothing about `return nil, fmt.Errorf(..)` when err is an ordinary local.)
	var guardCells []*ssa.Alloc
	for _, d := range findInstrs(fn, func(in ssa.Instruction) bool { _, ok := in.(*ssa.Defer); return ok }) {
		df := d.(*ssa.Defer).Call.StaticCallee()
		if df == nil || df.Blocks == nil || o.c.Parent(df) != fn {
			continue
		}
		chs := o.closureHandle(fn, df, hs)
		if chs == nil {
			continue
		}
		if len(findInstrs(df, func(in ssa.Instruction) bool { return o.isRelease(in, chs) })) > 0 {
			condDefers[d] = true
			if mc, ok := d.(*ssa.Defer).Call.Value.(*ssa.MakeClosure); ok {
				for _, b := range df.Blocks {
					ifi := ifOf(b)
					if ifi == nil {
						continue
					}
					x, _, isNilCmp := nilCmp(ifi.Cond)
					if !isNilCmp {
						continue
					}
					ld, isLd := x.(*ssa.UnOp)
					if !isLd {
						continue
					}
					fv, isFV := ld.X.(*ssa.FreeVar)
					if !isFV || !types.Identical(ld.Type(), types.Universe.Lookup("error").Type()) {
						continue
					}
					for i, v := range df.FreeVars {
						if v == fv {
							if al, isAl := mc.Bindings[i].(*ssa.Alloc); isAl {
								guardCells = append(guardCells, al)
							}
						}
					}
				}
			}
		}
	}
	if os.Getenv("LP2P_DEBUG_OWN") == fnKey(fn) {
		fmt.Printf("OWN guardCells in %s: %d condDefers=%d\n", fnKey(fn), len(guardCells), len(condDefers))
	}
	tiedToGuard := func(ret *ssa.Return) bool {
		if len(guardCells) == 0 {
			return true
		}
		ei := errResultIndex(fn)
		if ei < 0 || ei >= len(ret.Results) {
			return true
		}
		for _, cell := range guardCells {
			if isNamedResultCell(fn, cell) {
				return true
			}
			if ld, ok := ret.Results[ei].(*ssa.UnOp); ok && ld.Op == token.MUL {
				if ld.X == ssa.Value(cell) {
					return true
				}
				// through the result spill cell: `*spill = *cell; rundefers; return *spill`
				if lv := loadedValue(ld); lv != nil {
					if l2, ok := lv.(*ssa.UnOp); ok && l2.Op == token.MUL && l2.X == ssa.Value(cell) {
						return true
					}
				}
			}
		}
		return false
	}
	// `case ch <- h:` of a select: the edge into that case hands the handle on
	selSend := func(b *ssa.BasicBlock, s int) bool {
		i := ifOf(b)
		if i == nil || s != 0 {
			return false
		}
		bo, ok := i.Cond.(*ssa.BinOp)
		if !ok || bo.Op != token.EQL {
			return false
		}
		ex, ok := bo.X.(*ssa.Extract)
		if !ok || ex.Index != 0 {
			return false
		}
		sel, ok := ex.Tuple.(*ssa.Select)
		if !ok {
			return false
		}
		k, ok := constInt(bo.Y)
		if !ok || int(k) >= len(sel.States) {
			return false
		}
		st := sel.States[k]
		return st.Dir == types.SendOnly && hs.is(st.Send)
	}
	runQ := func(useCond bool, want func(*ssa.Return) bool) (string, int) {
		q := &Cut{Fn: fn, From: from, FromEdges: fromEdges,
			EdgeCut: anyEdge(nilEdge, o.transferEdges(fn, hs), extraCut, selSend),
			Sep: func(in ssa.Instruction) bool {
				if useCond && exitClass == "error" && condDefers[in] {
					return true
				}
				ok, why := o.consumes(fn, in, hs, depth)
				if ok && os.Getenv("LP2P_DEBUG_OWN") == fnKey(fn) {
					fmt.Printf("OWN sep in %s at %s: %s (%s)\n", fnKey(fn), o.c.Pos(instrPos(in)), describeInstr(in), why)
				}
				return ok
			},
			Target: func(in ssa.Instruction) bool {
				if loopHead != nil && in == loopHead {
					return true
				}
				ret, ok := in.(*ssa.Return)
				if !ok {
					return false
				}
				if !want(ret) {
					return false
				}
				if returnCarries(ret, hs) {
					return false
				}
				isErr := false
				if ei := errResultIndex(fn); ei >= 0 {
					isErr = !isNilConst(retVal(ret, ei))
				}
				if os.Getenv("LP2P_DEBUG_OWN") == fnKey(fn) {
					fmt.Printf("OWN exit in %s at %s: isErr=%v class=%s val=%s\n", fnKey(fn), o.c.Pos(instrPos(ret)), isErr, exitClass, describeVal(retVal(ret, errResultIndex(fn))))
				}
				switch exitClass {
				case "error":
					return isErr
				case "success":
					return !isErr
				}
				return true
			}}
		return q.Run(o.c)
	}
	if exitClass != "error" || len(guardCells) == 0 {
		return runQ(true, func(*ssa.Return) bool { return true })
	}
	w1, n1 := runQ(true, tiedToGuard)
	if w1 != "" {
		return w1, n1
	}
	w2, n2 := runQ(false, func(r *ssa.Return) bool { return !tiedToGuard(r) })
	if w2 != "" {
		w2 += " (the deferred release tests an error variable that this exit does not return)"
	}
	return w2, n1 + n2
}

// closureHandle maps the parent's handle aliases to the closure's free variables.
func (o *ownCtx) closureHandle(parent, cl *ssa.Function, hs *handleSet) *handleSet {
	var mc *ssa.MakeClosure
	allInstrsIn(parent, func(in ssa.Instruction) {
		if m, ok := in.(*ssa.MakeClosure); ok && m.Fn == ssa.Value(cl) {
			mc = m
		}
	})
	if mc == nil {
		return nil
	}
	var roots, cells []ssa.Value
	for i, b := range mc.Bindings {
		if hs.cells[b] {
			cells = append(cells, cl.FreeVars[i])
		} else if hs.is(b) {
			roots = append(roots, cl.FreeVars[i])
		}
	}
	if len(roots)+len(cells) == 0 {
		return nil
	}
	return buildHandleSet(cl, roots, cells)
}

func (o *ownCtx) summary(callee *ssa.Function, paramIdx int, depth int) *ownSummary {
	key := fmt.Sprintf("%s#%d", fnKey(callee), paramIdx)
	if s, ok := o.memo[key]; ok {
		return s
	}
	s := &ownSummary{}
	o.memo[key] = s // recursion guard: pessimistic default
	hs := buildHandleSet(callee, []ssa.Value{callee.Params[paramIdx]}, nil)
	saveS, saveR := o.scopes, o.relMemo
	o.reset()
	defer func() { o.scopes, o.relMemo = saveS, saveR }()
	w, _ := o.held(callee, hs, nil, nil, "error", nil, nil, depth)
	s.releasesOnError = w == ""
	w2, _ := o.held(callee, hs, nil, nil, "success", nil, nil, depth)
	s.consumedOnOK = w2 == ""
	s.witnessOK = w2
	if os.Getenv("LP2P_DEBUG_OWN") != "" {
		fmt.Printf("OWN summary %s: releasesOnError=%v (%s) consumedOnOK=%v (%s)\n", key, s.releasesOnError, w, s.consumedOnOK, w2)
	}
	return s
}

// checkAcquire verifies one acquire site: from the success of the call,
// every exit (and every re-entry of the acquire in a loop) has consumed the
// handle. Closures that capture the handle are verified recursively.
func (o *ownCtx) reset() {
	o.scopes = map[*ssa.Function]*handleSet{}
	o.relMemo = map[*ssa.Function]int{}
}

func (o *ownCtx) checkAcquire(ru *Rule, fn *ssa.Function, acq ssa.CallInstruction, hIdx int) {
	site := fmt.Sprintf("%s: %s from %s", fnKey(fn), o.spec.what, calleeKey(acq))
	av, ok := acq.(ssa.Value)
	if !ok {
		ru.Fail(site, instrPos(acq.(ssa.Instruction)), o.spec.what+" acquired by go/defer statement is dropped", "")
		return
	}
	var h ssa.Value
	sig := acq.Common().Signature()
	if sig.Results().Len() == 1 {
		h = av
	} else {
		for _, r := range *av.Referrers() {
			if e, ok := r.(*ssa.Extract); ok && e.Index == hIdx {
				h = e
			}
		}
	}
	if h == nil {
		ru.Fail(site, instrPos(acq.(ssa.Instruction)), "the acquired "+o.spec.what+" is discarded (result unused)", "")
		return
	}
	hs := buildHandleSet(fn, []ssa.Value{h}, nil)
	// the acquire's own error edge: nothing acquired
	errIdx := sig.Results().Len() - 1
	acqErr := edgeNil(func(v ssa.Value) bool { ci, i := resultOf(v); return ci == acq && i == errIdx }, false)
	w, n := o.held(fn, hs, []ssa.Instruction{acq.(ssa.Instruction)}, nil, "all", acqErr, acq.(ssa.Instruction), 0)
	if w != "" {
		ru.Fail(site, instrPos(acq.(ssa.Instruction)), "an exit is reachable with the "+o.spec.what+" neither released, returned, stored nor handed on", w)
	} else {
		ru.OK(site, instrPos(acq.(ssa.Instruction)), n+1, "")
	}
	o.checkDerived(ru, fn, hs, site, 0)
	o.checkClosures(ru, fn, hs, site, 0)
}

// checkDerived: a call that took the handle and succeeded returns an object
// that now owns it (wrapper / upgraded connection). That object is itself
// obligated in this function: closed, returned, stored, sent or handed on.
func (o *ownCtx) checkDerived(ru *Rule, fn *ssa.Function, hs *handleSet, site string, level int) {
	if level > 2 {
		return
	}
	allInstrsIn(fn, func(in ssa.Instruction) {
		call, ok := in.(*ssa.Call)
		if !ok {
			return
		}
		sig := call.Common().Signature()
		n := sig.Results().Len()
		if n < 2 || !types.Identical(sig.Results().At(n-1).Type(), types.Universe.Lookup("error").Type()) {
			return
		}
		passes := false
		for ai, a := range callArgs(call) {
			if ai == 0 && (call.Common().IsInvoke() || sig.Recv() != nil) {
				continue
			}
			if hs.is(a) {
				passes = true
			}
		}
		if !passes {
			return
		}
		switch sig.Results().At(0).Type().Underlying().(type) {
		case *types.Pointer, *types.Interface:
		default:
			return
		}
		var d ssa.Value
		for _, r := range *call.Referrers() {
			if e, ok := r.(*ssa.Extract); ok && e.Index == 0 {
				d = e
			}
		}
		key := site + " → object returned by " + calleeKey(call)
		if callee := call.Common().StaticCallee(); callee != nil && callee.Blocks != nil && returnedObjectRegistered(callee) {
			ru.OK(key, instrPos(in), 1, "the callee registers the returned object in an owner collection before returning it")
			return
		}
		if d == nil {
			ru.Fail(key, instrPos(in), "the object that took over the "+o.spec.what+" is discarded", "")
			return
		}
		dhs := buildHandleSet(fn, []ssa.Value{d}, nil)
		var okEdges []CFGEdge
		for _, b := range fn.Blocks {
			for s := range b.Succs {
				if edgeNil(func(v ssa.Value) bool { ci, i := resultOf(v); return ci == ssa.CallInstruction(call) && i == n-1 }, true)(b, s) {
					okEdges = append(okEdges, CFGEdge{b, s})
				}
			}
		}
		if len(okEdges) == 0 {
			return // error not branched on here (tail position); the return carries the object
		}
		od := *o
		od.reset()
		od.spec.relNames = append(append([]string{}, o.spec.relNames...), "Close", "CloseWithError", "closeWithError", "Reset")
		w, cnt := od.held(fn, dhs, nil, okEdges, "all", nil, nil, 0)
		if w != "" {
			ru.Fail(key, instrPos(in), "the object that took over the "+o.spec.what+" can be dropped without being closed, returned, stored or handed on", w)
		} else {
			ru.OK(key, instrPos(in), cnt+1, "")
		}
		od.checkDerived(ru, fn, dhs, key, level+1)
	})
}

func (o *ownCtx) checkClosures(ru *Rule, fn *ssa.Function, hs *handleSet, site string, depth int) {
	if depth > 3 {
		return
	}
	for _, cl := range fn.AnonFuncs {
		chs := o.closureHandle(fn, cl, hs)
		if chs == nil {
			continue
		}
		// a deferred closure that conditionally releases is accounted in held()
		isDeferredCond := false
		allInstrsIn(fn, func(in ssa.Instruction) {
			if d, ok := in.(*ssa.Defer); ok && d.Call.StaticCallee() == cl {
				isDeferredCond = true
			}
		})
		if isDeferredCond {
			continue
		}
		// closures that only read the handle (no release, not a goroutine / stored callback
		// responsible for it) still must not leak it if they are the sole owner: we require
		// ownership only of closures started with `go` or registered as cleanup callbacks.
		owner := false
		allInstrsIn(fn, func(in ssa.Instruction) {
			switch x := in.(type) {
			case *ssa.Go:
				if mc, ok := x.Call.Value.(*ssa.MakeClosure); ok && mc.Fn == ssa.Value(cl) {
					owner = true
				}
			case *ssa.Call:
				for _, a := range x.Call.Args {
					if mc, ok := a.(*ssa.MakeClosure); ok && mc.Fn == ssa.Value(cl) && (calleeKey(x) == "context.AfterFunc" || calleeKey(x) == "time.AfterFunc") {
						owner = true
					}
				}
			}
		})
		if !owner {
			continue
		}
		w, n := o.held(cl, chs, nil, nil, "all", nil, nil, depth+1)
		key := site + " → closure " + strings.TrimPrefix(fnKey(cl), fnKey(fn))
		if w != "" {
			ru.Fail(key, cl.Pos(), "the closure that owns the "+o.spec.what+" can finish without releasing or handing it on", w)
		} else {
			ru.OK(key, cl.Pos(), n+1, "")
		}
		o.checkDerived(ru, cl, chs, key, 0)
		o.checkClosures(ru, cl, chs, key, depth+1)
	}
}

// returnedObjectRegistered: on every success return of callee, the returned
// object (result 0) was also stored in a map / field / sent before returning,
// so the caller is not its only owner.
func returnedObjectRegistered(callee *ssa.Function) bool {
	rets := successReturns(callee)
	if len(rets) == 0 {
		return false
	}
	for _, r := range rets {
		v := strip(r.(*ssa.Return).Results[0])
		hs := buildHandleSet(callee, []ssa.Value{v}, nil)
		found := false
		allInstrsIn(callee, func(in ssa.Instruction) {
			switch x := in.(type) {
			case *ssa.MapUpdate:
				if hs.is(x.Key) || hs.is(x.Value) {
					found = true
				}
			case *ssa.Store:
				if _, isField := x.Addr.(*ssa.FieldAddr); isField && hs.is(x.Val) {
					// stored into some other object's field (not into itself)
					if fa := x.Addr.(*ssa.FieldAddr); !hs.is(fa.X) {
						found = true
					}
				}
			}
		})
		if !found {
			return false
		}
	}
	return true
}

// checkParamErrorExits: the function holds the handle in a parameter; every
// error exit must have released it (directly, through a wrapper, or by
// handing it to a callee that releases on error).
func (o *ownCtx) checkParamErrorExits(ru *Rule, fnK string, param string, wrappers bool) {
	fn := ru.need(fnK)
	if fn == nil {
		return
	}
	p := paramByName(fn, param)
	key := fmt.Sprintf("%s: %s `%s` released on every error exit", fnK, o.spec.what, param)
	if p == nil {
		ru.Err(key, "parameter does not resolve")
		return
	}
	hs := buildHandleSet(fn, []ssa.Value{p}, nil)
	if wrappers {
		hs.addWrappers(fn)
	}
	o.reset()
	w, n := o.held(fn, hs, nil, nil, "error", nil, nil, 0)
	if w != "" {
		ru.Fail(key, fn.Pos(), "an error exit is reachable with the "+o.spec.what+" still open", w)
	} else {
		ru.OK(key, fn.Pos(), n+1, "")
	}
}

// checkAcquireErrorExits: like checkAcquire but only error exits are
// obligated (the success exits return / store the handle or a wrapper).
func (o *ownCtx) checkAcquireErrorExits(ru *Rule, fnK string, acqKeys []string, hIdx int, wrappers bool) {
	fn := ru.need(fnK)
	if fn == nil {
		return
	}
	acqs := callsIn(fn, acqKeys...)
	if len(acqs) == 0 {
		ru.Fail(fmt.Sprintf("%s: %s acquired by %v", fnK, o.spec.what, acqKeys), fn.Pos(), "acquire site not found", "")
		return
	}
	for _, acq := range acqs {
		key := fmt.Sprintf("%s: %s from %s released on every error exit", fnK, o.spec.what, calleeKey(acq))
		av := acq.(ssa.Value)
		var h ssa.Value
		sig := acq.Common().Signature()
		if sig.Results().Len() == 1 {
			h = av
		} else {
			for _, r := range *av.Referrers() {
				if e, ok := r.(*ssa.Extract); ok && e.Index == hIdx {
					h = e
				}
			}
		}
		if h == nil {
			ru.Fail(key, instrPos(acq.(ssa.Instruction)), "result discarded", "")
			continue
		}
		hs := buildHandleSet(fn, []ssa.Value{h}, nil)
		if wrappers {
			hs.addWrappers(fn)
		}
		o.reset()
		errIdx := sig.Results().Len() - 1
		acqErr := edgeNil(func(v ssa.Value) bool { ci, i := resultOf(v); return ci == acq && i == errIdx }, false)
		w, n := o.held(fn, hs, []ssa.Instruction{acq.(ssa.Instruction)}, nil, "error", acqErr, nil, 0)
		if w != "" {
			ru.Fail(key, instrPos(acq.(ssa.Instruction)), "an error exit is reachable with the "+o.spec.what+" still open", w)
		} else {
			ru.OK(key, instrPos(acq.(ssa.Instruction)), n+1, "")
		}
	}
}

func paramByName(fn *ssa.Function, name string) *ssa.Parameter {
	for _, p := range fn.Params {
		if paramIs(p, name) {
			return p
		}
	}
	return nil
}

func inModule(f *ssa.Function) bool {
	return f.Pkg != nil && strings.HasPrefix(f.Pkg.Pkg.Path()+"/", Mod)
}

// isNamedResultCell: the Alloc is the spill cell of a named result.
func isNamedResultCell(fn *ssa.Function, al *ssa.Alloc) bool {
	res := fn.Signature.Results()
	for i := 0; i < res.Len(); i++ {
		if n := res.At(i).Name(); n != "" && n != "_" && n == al.Comment {
			return true
		}
	}
	// unnamed results are spilled into synthetic cells too when the function has defers
	// (`*cell = v; rundefers; t = *cell; return t`): a cell whose load is a Return operand
	if al.Comment == "" && al.Referrers() != nil {
		for _, r := range *al.Referrers() {
			ld, ok := r.(*ssa.UnOp)
			if !ok || ld.Op != token.MUL || ld.Referrers() == nil {
				continue
			}
			for _, r2 := range *ld.Referrers() {
				if _, isRet := r2.(*ssa.Return); isRet {
					return true
				}
			}
		}
	}
	return false
}

// closureValues: the function literals a value may denote (a closure, a
// capture-less literal, or a load of a local cell holding closures).
func (o *ownCtx) closureValues(fn *ssa.Function, v ssa.Value) []*ssa.Function {
	switch x := v.(type) {
	case *ssa.MakeClosure:
		return []*ssa.Function{x.Fn.(*ssa.Function)}
	case *ssa.Function:
		if o.c.Parent(x) != nil {
			return []*ssa.Function{x}
		}
	case *ssa.UnOp:
		if x.Op != token.MUL {
			return nil
		}
		switch cell := x.X.(type) {
		case *ssa.Alloc:
			return closuresStoredIn(fn, cell)
		case *ssa.FreeVar:
			// resolve through the defining function's binding
			parent := o.c.Parent(fn)
			if parent == nil {
				return nil
			}
			idx := -1
			for i, fv := range fn.FreeVars {
				if fv == cell {
					idx = i
				}
			}
			var out []*ssa.Function
			allInstrsIn(parent, func(in ssa.Instruction) {
				if mc, ok := in.(*ssa.MakeClosure); ok && mc.Fn == ssa.Value(fn) && idx >= 0 {
					switch b := mc.Bindings[idx].(type) {
					case *ssa.Alloc:
						out = append(out, closuresStoredIn(parent, b)...)
					case *ssa.FreeVar:
						// two levels up: give up (no such idiom in the tables)
					}
				}
			})
			return out
		}
	}
	return nil
}

func closuresStoredIn(fn *ssa.Function, cell *ssa.Alloc) []*ssa.Function {
	var out []*ssa.Function
	for _, r := range *cell.Referrers() {
		if st, ok := r.(*ssa.Store); ok && st.Addr == ssa.Value(cell) {
			switch v := st.Val.(type) {
			case *ssa.MakeClosure:
				out = append(out, v.Fn.(*ssa.Function))
			case *ssa.Function:
				out = append(out, v)
			}
		}
	}
	return out
}

func (o *ownCtx) callTargets(fn *ssa.Function, call ssa.CallInstruction) []*ssa.Function {
	cc := call.Common()
	if cc.IsInvoke() {
		return nil
	}
	return o.closureValues(fn, cc.Value)
}

// handleIn: the handle set of a closure, derived from its defining function's set.
func (o *ownCtx) handleIn(cl *ssa.Function) *handleSet {
	if hs, ok := o.scopes[cl]; ok {
		return hs
	}
	parent := o.c.Parent(cl)
	if parent == nil {
		return nil
	}
	phs := o.handleIn(parent)
	if phs == nil {
		return nil
	}
	chs := o.closureHandle(parent, cl, phs)
	o.scopes[cl] = chs // may be nil: the closure does not capture the handle itself
	return chs
}

// mustRelease: on every exit the closure released / handed on the handle,
// directly or by calling another closure that must release.
func (o *ownCtx) mustRelease(cl *ssa.Function) bool {
	switch o.relMemo[cl] {
	case 1:
		return true
	case 2, 3:
		return false // 3: in progress (cycle)
	}
	o.relMemo[cl] = 3
	chs := o.handleIn(cl)
	if chs == nil {
		chs = &handleSet{vals: map[ssa.Value]bool{}, cells: map[ssa.Value]bool{}}
		o.scopes[cl] = chs
	}
	w, _ := o.held(cl, chs, nil, nil, "all", nil, nil, 1)
	if w == "" {
		o.relMemo[cl] = 1
		return true
	}
	o.relMemo[cl] = 2
	return false
}

// mayRelease: some path of the closure releases (directly or through a closure it calls).
func (o *ownCtx) mayRelease(cl *ssa.Function, seen map[*ssa.Function]bool) bool {
	if seen[cl] {
		return false
	}
	seen[cl] = true
	chs := o.handleIn(cl)
	found := false
	allInstrsIn(cl, func(in ssa.Instruction) {
		if chs != nil && o.isRelease(in, chs) {
			found = true
		}
		if ci, ok := in.(ssa.CallInstruction); ok {
			for _, t := range o.callTargets(cl, ci) {
				if o.mayRelease(t, seen) {
					found = true
				}
			}
		}
	})
	return found
}
