package main

import (
	"fmt"

	"golang.org/x/tools/go/ssa"
)

// Path event counting (E9): enumerate the edge-simple paths of a function
// (entry → return) or of one iteration of a loop (body entry → back edge or
// exit) and count events attached to instructions and to CFG edges. Used for
// "exactly one X on every path" rules. Paths that end in a panic are ignored.

type pathEnum struct {
	Fn     *ssa.Function
	Header *ssa.BasicBlock // nil: whole function
	Body   map[*ssa.BasicBlock]bool
	Instr  func(ssa.Instruction) int
	Edge   func(b *ssa.BasicBlock, s int) int
	// Maybe: the instruction may or may not perform the event and nothing in
	// the CFG tells which (a select whose chosen case is not tested): the
	// path forks into both counts.
	Maybe  func(ssa.Instruction) bool
	Budget int
}

type pathResult struct {
	counts   map[int]string // count → example trace
	paths    int
	overflow bool
}

func (p *pathEnum) Run() pathResult {
	res := pathResult{counts: map[int]string{}}
	budget := p.Budget
	if budget == 0 {
		budget = 20000
	}
	used := map[[2]int]bool{}
	record := func(n int, trace []int) {
		res.paths++
		if _, ok := res.counts[n]; !ok {
			res.counts[n] = fmt.Sprintf("b%v", trace)
		}
	}
	var walk func(b *ssa.BasicBlock, n int, trace []int)
	var from func(b *ssa.BasicBlock, i int, n int, trace []int)
	walk = func(b *ssa.BasicBlock, n int, trace []int) {
		if budget <= 0 {
			res.overflow = true
			return
		}
		budget--
		from(b, 0, n, append(trace, b.Index))
	}
	from = func(b *ssa.BasicBlock, i int, n int, trace []int) {
		for ; i < len(b.Instrs); i++ {
			in := b.Instrs[i]
			if p.Instr != nil {
				n += p.Instr(in)
			}
			if p.Maybe != nil && p.Maybe(in) {
				if budget <= 0 {
					res.overflow = true
					return
				}
				budget--
				from(b, i+1, n+1, trace)
			}
			switch in.(type) {
			case *ssa.Return:
				record(n, trace)
				return
			case *ssa.Panic:
				return
			}
		}
		for si, s := range b.Succs {
			ek := [2]int{b.Index, si}
			if used[ek] {
				continue
			}
			m := n
			if p.Edge != nil {
				m += p.Edge(b, si)
			}
			if p.Header != nil && (s == p.Header || !p.Body[s]) {
				if b == p.Header && len(trace) == 1 {
					continue // leaving from the header without an iteration
				}
				record(m, append(trace, s.Index))
				continue
			}
			used[ek] = true
			walk(s, m, trace)
			delete(used, ek)
		}
	}
	start := p.Header
	if start == nil {
		if len(p.Fn.Blocks) == 0 {
			return res
		}
		start = p.Fn.Blocks[0]
	}
	walk(start, 0, nil)
	return res
}

func (r pathResult) only(n int) bool {
	if r.overflow || r.paths == 0 {
		return false
	}
	for k := range r.counts {
		if k != n {
			return false
		}
	}
	return true
}

func (r pathResult) String() string {
	s := fmt.Sprintf("%d paths:", r.paths)
	for k, tr := range r.counts {
		s += fmt.Sprintf(" count=%d e.g. %s;", k, tr)
	}
	if r.overflow {
		s += " (budget exceeded)"
	}
	return s
}

// selectSendEdge: the CFG edge taken when the k-th case of a select was
// chosen and that case is a send matching the predicates.
func selectSendEdge(b *ssa.BasicBlock, s int, isChan, isVal func(ssa.Value) bool) bool {
	ifi := ifOf(b)
	if ifi == nil || s != 0 {
		return false
	}
	cmp, ok := ifi.Cond.(*ssa.BinOp)
	if !ok || cmp.Op.String() != "==" {
		return false
	}
	k, ok := constInt(cmp.Y)
	if !ok {
		return false
	}
	ex, ok := cmp.X.(*ssa.Extract)
	if !ok || ex.Index != 0 {
		return false
	}
	sel, ok := ex.Tuple.(*ssa.Select)
	if !ok || int(k) < 0 || int(k) >= len(sel.States) {
		return false
	}
	st := sel.States[k]
	return st.Send != nil && isChan(st.Chan) && isVal(st.Send)
}

// selectSendUntested: a select that may send a matching value on a matching
// channel, while no branch of the CFG tests whether that case was chosen.
func selectSendUntested(in ssa.Instruction, isChan, isVal func(ssa.Value) bool) bool {
	sel, ok := in.(*ssa.Select)
	if !ok {
		return false
	}
	for k, st := range sel.States {
		if st.Send == nil || !isChan(st.Chan) || !isVal(st.Send) {
			continue
		}
		tested := false
		for _, ref := range *sel.Referrers() {
			ex, ok := ref.(*ssa.Extract)
			if !ok || ex.Index != 0 {
				continue
			}
			for _, r2 := range *ex.Referrers() {
				cmp, ok := r2.(*ssa.BinOp)
				if !ok || cmp.Op.String() != "==" {
					continue
				}
				if kk, isC := constInt(cmp.Y); isC && int(kk) == k {
					for _, r3 := range *cmp.Referrers() {
						if ifi, isIf := r3.(*ssa.If); isIf && ifi.Block().Succs[0] != ifi.Block().Succs[1] {
							tested = true
						}
					}
				}
			}
		}
		if !tested {
			return true
		}
	}
	return false
}

// pathObs: what one entry→site path saw.
type pathObs struct {
	vals   []ssa.Value     // the requested values with phis resolved along the path
	passed map[string]bool // named instruction / edge marks crossed
	trace  []int
}

// enumPathsTo enumerates the edge-simple paths from the entry to site,
// resolving phis by the predecessor taken.
func enumPathsTo(f *ssa.Function, site ssa.Instruction, marks map[string]func(ssa.Instruction) bool, edgeMarks map[string]EdgePred, vals []ssa.Value, budget int) ([]pathObs, bool) {
	var out []pathObs
	overflow := false
	used := map[[2]int]bool{}
	type st struct {
		phi    map[*ssa.Phi]ssa.Value
		passed map[string]bool
	}
	clone := func(s st) st {
		n := st{phi: map[*ssa.Phi]ssa.Value{}, passed: map[string]bool{}}
		for k, v := range s.phi {
			n.phi[k] = v
		}
		for k, v := range s.passed {
			n.passed[k] = v
		}
		return n
	}
	resolve := func(s st, v ssa.Value) ssa.Value {
		for i := 0; i < 20; i++ {
			p, ok := v.(*ssa.Phi)
			if !ok {
				return v
			}
			r, ok := s.phi[p]
			if !ok {
				return v
			}
			v = r
		}
		return v
	}
	var walk func(b, pred *ssa.BasicBlock, s st, trace []int)
	walk = func(b, pred *ssa.BasicBlock, s st, trace []int) {
		if budget <= 0 {
			overflow = true
			return
		}
		budget--
		trace = append(trace, b.Index)
		// parallel phi assignment
		newPhi := map[*ssa.Phi]ssa.Value{}
		for _, in := range b.Instrs {
			p, ok := in.(*ssa.Phi)
			if !ok {
				break
			}
			for i, pb := range b.Preds {
				if pb == pred {
					newPhi[p] = resolve(s, p.Edges[i])
				}
			}
		}
		for k, v := range newPhi {
			s.phi[k] = v
		}
		for _, in := range b.Instrs {
			if in == site {
				o := pathObs{passed: s.passed, trace: trace}
				for _, v := range vals {
					o.vals = append(o.vals, resolve(s, v))
				}
				out = append(out, o)
				return
			}
			for name, m := range marks {
				if m(in) {
					s.passed[name] = true
				}
			}
			switch in.(type) {
			case *ssa.Return, *ssa.Panic:
				return
			}
		}
		for si, succ := range b.Succs {
			ek := [2]int{b.Index, si}
			if used[ek] {
				continue
			}
			used[ek] = true
			n := clone(s)
			for name, m := range edgeMarks {
				if m(b, si) {
					n.passed[name] = true
				}
			}
			walk(succ, b, n, trace)
			delete(used, ek)
		}
	}
	if len(f.Blocks) > 0 {
		walk(f.Blocks[0], nil, st{phi: map[*ssa.Phi]ssa.Value{}, passed: map[string]bool{}}, nil)
	}
	return out, overflow
}
