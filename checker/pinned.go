package main

import (
	_ "embed"
	"encoding/json"
	"os"
	"sort"
	"strings"

	"golang.org/x/tools/go/ssa"
)

// Rules name parameters (and captured variables) as the pinned source does.
// A parameter name is a local name: renaming it changes nothing, so rules
// must survive it. pinned_params.json records, for every module function at
// the commit the rules were written against, the names of its parameters and
// free variables by position; a name that is no longer found in the current
// function is resolved through its pinned position (when the arity is
// unchanged). Regenerate with `lp2pcheck -dumpparams checker/pinned_params.json`.

//go:embed pinned_params.json
var pinnedParamsJSON []byte

type pinnedFn struct {
	Params   []string `json:"p"`
	FreeVars []string `json:"f,omitempty"`
}

var pinnedParams map[string]pinnedFn

func pinned() map[string]pinnedFn {
	if pinnedParams == nil {
		pinnedParams = map[string]pinnedFn{}
		_ = json.Unmarshal(pinnedParamsJSON, &pinnedParams)
	}
	return pinnedParams
}

func writePinnedParams(c *Ctx, path string) error {
	out := map[string]pinnedFn{}
	for _, f := range c.Fns {
		if f.Pkg == nil || !strings.HasPrefix(f.Pkg.Pkg.Path()+"/", Mod) || strings.HasSuffix(f.Pkg.Pkg.Path(), controlsPkg) {
			continue
		}
		var e pinnedFn
		for _, p := range f.Params {
			e.Params = append(e.Params, p.Name())
		}
		for _, v := range f.FreeVars {
			e.FreeVars = append(e.FreeVars, v.Name())
		}
		out[fnKey(f)] = e // also functions without parameters: the key set is the list of functions of the pinned commit
	}
	keys := make([]string, 0, len(out))
	for k := range out {
		keys = append(keys, k)
	}
	sort.Strings(keys)
	var sb strings.Builder
	sb.WriteString("{\n")
	for i, k := range keys {
		b, _ := json.Marshal(out[k])
		kb, _ := json.Marshal(k)
		sb.Write(kb)
		sb.WriteString(": ")
		sb.Write(b)
		if i < len(keys)-1 {
			sb.WriteString(",")
		}
		sb.WriteString("\n")
	}
	sb.WriteString("}\n")
	return os.WriteFile(path, []byte(sb.String()), 0o644)
}

// paramIs: p is the parameter the rules call `name`.
func paramIs(p *ssa.Parameter, name string) bool {
	if p.Name() == name {
		return true
	}
	fn := p.Parent()
	if fn == nil {
		return false
	}
	for _, q := range fn.Params {
		if q.Name() == name {
			return false // the name exists and is another parameter
		}
	}
	e, ok := pinned()[fnKey(fn)]
	if !ok || len(e.Params) != len(fn.Params) {
		return false
	}
	for i, q := range fn.Params {
		if q == p {
			return e.Params[i] == name
		}
	}
	return false
}

// freeVarIs: v is the captured variable the rules call `name`.
func freeVarIs(v *ssa.FreeVar, name string) bool {
	if v.Name() == name {
		return true
	}
	fn := v.Parent()
	if fn == nil {
		return false
	}
	for _, q := range fn.FreeVars {
		if q.Name() == name {
			return false
		}
	}
	e, ok := pinned()[fnKey(fn)]
	if !ok || len(e.FreeVars) != len(fn.FreeVars) {
		return false
	}
	for i, q := range fn.FreeVars {
		if q == v {
			return e.FreeVars[i] == name
		}
	}
	return false
}

// isPinnedFn: the function existed (under this key) at the commit the rules were written against.
func isPinnedFn(key string) bool {
	_, ok := pinned()[key]
	return ok
}

// PinnedRoot: the function of the pinned commit that f's code belongs to. A closure belongs to its enclosing
// function; a function that did not exist at the pinned commit (extracted during a refactoring) belongs to the
// pinned function all its static callers (call, go, defer; transitively through other new functions) belong to.
// When that is not unique, f stands for itself.
func (c *Ctx) PinnedRoot(f *ssa.Function) *ssa.Function {
	return c.pinnedRootD(f, 0)
}

func (c *Ctx) pinnedRootD(f *ssa.Function, d int) *ssa.Function {
	r := c.Root(f)
	if isPinnedFn(fnKey(r)) || d > 3 {
		return r
	}
	if c.callersOf == nil {
		c.callersOf = map[*ssa.Function][]*ssa.Function{}
		for _, g := range c.Fns {
			g := g
			allInstrsIn(g, func(in ssa.Instruction) {
				ci, ok := in.(ssa.CallInstruction)
				if !ok {
					return
				}
				if sc := ci.Common().StaticCallee(); sc != nil {
					if o := sc.Origin(); o != nil {
						sc = o
					}
					c.callersOf[sc] = append(c.callersOf[sc], g)
				}
			})
		}
	}
	var root *ssa.Function
	for _, caller := range c.callersOf[r] {
		if c.Root(caller) == r {
			continue // recursion
		}
		pr := c.pinnedRootD(caller, d+1)
		if root == nil {
			root = pr
		} else if root != pr {
			return r
		}
	}
	if root == nil {
		return r
	}
	return root
}

// PinnedRoots: all functions of the pinned commit that f's code belongs to (see PinnedRoot) — a helper extracted
// since may be shared by several of them. A function with no resolvable caller stands for itself.
func (c *Ctx) PinnedRoots(f *ssa.Function) []*ssa.Function {
	seen := map[*ssa.Function]bool{}
	var out []*ssa.Function
	var walk func(g *ssa.Function, d int)
	walk = func(g *ssa.Function, d int) {
		r := c.Root(g)
		if isPinnedFn(fnKey(r)) || d > 3 {
			if !seen[r] {
				seen[r] = true
				out = append(out, r)
			}
			return
		}
		c.pinnedRootD(r, 0) // builds the caller index
		callers := c.callersOf[r]
		n := 0
		for _, caller := range callers {
			if c.Root(caller) == r {
				continue
			}
			n++
			walk(caller, d+1)
		}
		if n == 0 && !seen[r] {
			seen[r] = true
			out = append(out, r)
		}
	}
	walk(f, 0)
	return out
}
