package main

import (
	"fmt"
	"go/types"
	"strings"

	"golang.org/x/tools/go/ssa"
)

func scopeResultIndex(sig *types.Signature) (int, string) {
	for i := 0; i < sig.Results().Len(); i++ {
		ts := types.TypeString(sig.Results().At(i).Type(), nil)
		for _, n := range []string{"core/network.ConnManagementScope", "core/network.StreamManagementScope", "core/network.ResourceScopeSpan"} {
			if strings.HasSuffix(ts, n) {
				return i, n
			}
		}
	}
	return -1, ""
}

func probeScopes(c *Ctx) {
	for _, f := range c.Fns {
		allInstrsIn(f, func(in ssa.Instruction) {
			ci, ok := in.(ssa.CallInstruction)
			if !ok {
				return
			}
			sig := ci.Common().Signature()
			if i, n := scopeResultIndex(sig); i >= 0 {
				fmt.Printf("%s\t%s\t%s\t#%d %s\n", c.Pos(instrPos(in)), fnKey(f), calleeKey(ci), i, n)
			}
		})
	}
}
