package main

import (
	"crypto/sha1"
	"encoding/json"
	"fmt"
	"go/token"
	"os"
	"path/filepath"
	"sort"
	"strings"
)

// Verdict of one obligation.
type Verdict string

const (
	VOK        Verdict = "discharged"
	VViolation Verdict = "violation"
	VKnown     Verdict = "known-finding"
	VError     Verdict = "error" // unresolved anchor / undecided idiom: exit 2
)

// Obligation = (rule, construct). Construct keys never contain line numbers.
type Obligation struct {
	Rule      string  `json:"rule"`
	Construct string  `json:"construct"`
	Pos       string  `json:"pos"`
	Verdict   Verdict `json:"verdict"`
	Detail    string  `json:"detail,omitempty"`
	Witness   string  `json:"witness,omitempty"`
	Examined  int     `json:"examined"` // CFG edges / sites looked at
}

type RuleStat struct {
	ID         string `json:"id"`
	Engine     string `json:"engine"`
	Doc        string `json:"doc"`
	Instances  int    `json:"instances"`
	Min        int    `json:"min_instances"`
	Violations int    `json:"violations"`
	Known      int    `json:"known"`
	Errors     int    `json:"errors"`
}

type Report struct {
	Prop  string
	Rules []*Rule
	ctx   *Ctx
}

type Rule struct {
	ID     string
	Engine string
	Doc    string
	Min    int
	Obls   []*Obligation
	rep    *Report
}

func (r *Report) Rule(id, engine string, min int, doc string) *Rule {
	ru := &Rule{ID: id, Engine: engine, Doc: doc, Min: min, rep: r}
	r.Rules = append(r.Rules, ru)
	return ru
}

func (ru *Rule) add(o *Obligation) *Obligation {
	o.Rule = ru.ID
	// distinct construct keys: if the same key is reported twice, number it by
	// occurrence in deterministic traversal order (never by line).
	n := 0
	for _, p := range ru.Obls {
		if p.Construct == o.Construct || strings.HasPrefix(p.Construct, o.Construct+"#") {
			n++
		}
	}
	if n > 0 {
		o.Construct = fmt.Sprintf("%s#%d", o.Construct, n+1)
	}
	ru.Obls = append(ru.Obls, o)
	return o
}

func (ru *Rule) OK(construct string, pos token.Pos, examined int, detail string) {
	ru.add(&Obligation{Construct: construct, Pos: ru.rep.ctx.Pos(pos), Verdict: VOK, Detail: detail, Examined: examined})
}

func (ru *Rule) Fail(construct string, pos token.Pos, what, witness string) {
	ru.add(&Obligation{Construct: construct, Pos: ru.rep.ctx.Pos(pos), Verdict: VViolation, Detail: what, Witness: witness, Examined: 1})
}

// Err: the rule cannot decide (anchor unresolved, idiom not understood).
func (ru *Rule) Err(construct string, what string) {
	ru.add(&Obligation{Construct: construct, Pos: "-", Verdict: VError, Detail: what})
}

// Check is the common shape: ok ? discharged : violation.
func (ru *Rule) Check(ok bool, construct string, pos token.Pos, examined int, okDetail, failWhat, witness string) {
	if ok {
		ru.OK(construct, pos, examined, okDetail)
	} else {
		ru.Fail(construct, pos, failWhat, witness)
	}
}

// ---------------------------------------------------------------------------

type KnownFinding struct {
	Property  string `json:"property"`
	Rule      string `json:"rule"`
	Construct string `json:"construct"`
	What      string `json:"what"`
	Status    string `json:"status"` // "known" | "fixed"
	Commit    string `json:"commit,omitempty"`
}

func loadKnown(path string) ([]KnownFinding, error) {
	b, err := os.ReadFile(path)
	if err != nil {
		if os.IsNotExist(err) {
			return nil, nil
		}
		return nil, err
	}
	var k struct {
		Findings []KnownFinding `json:"findings"`
	}
	if err := json.Unmarshal(b, &k); err != nil {
		return nil, err
	}
	return k.Findings, nil
}

// Finish applies known findings and min-instance rules, prints the result,
// writes evidence and replay files and returns the process exit code.
func (r *Report) Finish(verifDir, tier string, seed int, wall float64, known []KnownFinding, explanation string, notDecided string) int {
	c := r.ctx
	exit := 0
	var stats []RuleStat
	var all []*Obligation
	nViol, nKnown, nErr := 0, 0, 0
	for _, ru := range r.Rules {
		// the floor is 60% of the count confirmed by reading: a behaviour-preserving merge of two sites
		// must not turn into an ERROR, a rule that lost most of its instances must
		floor := ru.Min * 6 / 10
		if floor < 1 && ru.Min > 0 {
			floor = 1
		}
		st := RuleStat{ID: ru.ID, Engine: ru.Engine, Doc: ru.Doc, Min: floor}
		for _, o := range ru.Obls {
			if o.Verdict == VViolation {
				for _, k := range known {
					if k.Status == "known" && k.Property == r.Prop && k.Rule == o.Rule && k.Construct == o.Construct {
						o.Verdict = VKnown
						break
					}
				}
			}
			switch o.Verdict {
			case VViolation:
				st.Violations++
				nViol++
			case VKnown:
				st.Known++
				nKnown++
			case VError:
				st.Errors++
				nErr++
			}
			st.Instances++
			all = append(all, o)
		}
		if st.Instances < floor {
			o := &Obligation{Rule: ru.ID, Construct: "min-instances", Pos: "-", Verdict: VError,
				Detail: fmt.Sprintf("rule matched %d instances, %d were confirmed by reading (floor %d); the rule would pass vacuously", st.Instances, ru.Min, floor)}
			all = append(all, o)
			st.Errors++
			nErr++
		}
		stats = append(stats, st)
	}
	sort.SliceStable(all, func(i, j int) bool {
		if all[i].Rule != all[j].Rule {
			return all[i].Rule < all[j].Rule
		}
		return all[i].Construct < all[j].Construct
	})
	os.MkdirAll(filepath.Join(verifDir, "replay"), 0o755)
	for _, o := range all {
		switch o.Verdict {
		case VViolation:
			h := sha1.Sum([]byte(o.Rule + "|" + o.Construct))
			rp := filepath.Join(verifDir, "replay", fmt.Sprintf("%s-%s-%x.json", r.Prop, o.Rule, h[:4]))
			b, _ := json.MarshalIndent(map[string]any{"property": r.Prop, "obligation": o, "tier": tier}, "", " ")
			os.WriteFile(rp, b, 0o644)
			fmt.Printf("%s: %s: %s: %s", o.Pos, o.Rule, o.Construct, o.Detail)
			if o.Witness != "" {
				fmt.Printf("; witness: %s", o.Witness)
			}
			fmt.Println()
			fmt.Printf("VIOLATION property=%s replay=%s\n", r.Prop, rp)
			exit = 1
		case VKnown:
			fmt.Printf("KNOWN-FINDING: property=%s %s %s %s\n", r.Prop, o.Rule, o.Construct, o.Detail)
		case VError:
			fmt.Printf("ERROR %s %s: %s\n", o.Rule, o.Construct, o.Detail)
		}
	}
	if nErr > 0 && exit == 0 {
		exit = 2
	}
	// evidence
	distinct := map[string]bool{}
	discharged := 0
	for _, o := range all {
		if o.Verdict == VOK || o.Verdict == VKnown {
			discharged++
		}
		if o.Examined > 0 {
			distinct[o.Rule+"|"+o.Construct] = true
		}
	}
	var samples []*Obligation
	if len(all) > 0 {
		// seed selects which obligations are shown; violations/known always shown
		for _, o := range all {
			if o.Verdict != VOK {
				samples = append(samples, o)
			}
		}
		step := len(all)/12 + 1
		for i := seed % step; i < len(all) && len(samples) < 24; i += step {
			samples = append(samples, all[i])
		}
	}
	ev := map[string]any{
		"property_id": r.Prop,
		"tier":        tier,
		"seed":        seed,
		"level":       "other",
		"wall_s":      wall,
		"violations":  nViol,
		"coverage": map[string]any{
			"explanation":         explanation,
			"not_decided":         notDecided,
			"obligations":         len(all),
			"discharged":          discharged,
			"evaluations":         len(all),
			"distinct_nontrivial": len(distinct),
			"rule":                "obligations are (rule, construct) pairs enumerated from the type-checked SSA form of /repo's working tree by the per-rule site predicates in checker/" + strings.ToLower(r.Prop) + ".go; an obligation is non-trivial when the rule examined at least one CFG edge, reference or table entry for it; distinct = distinct (rule, construct) keys",
			"samples":             samples,
			"all_obligations":     all,
			"exhaustive":          true,
			"rules":               stats,
			"known_findings":      nKnown,
			"errors":              nErr,
			"packages":            len(c.Pkgs),
			"functions_analysed":  len(c.Fns),
			"call_sites":          c.NCallSites,
			"promoted_variables":  c.NLifted,
			"checker_cmd":         fmt.Sprintf("./check %s %s", r.Prop, tier),
			"trusted_base":        []string{"go1.26.8 go/types", "golang.org/x/tools v0.50.0 go/packages, go/ssa, callgraph/vta", "instance tables in checker/" + strings.ToLower(r.Prop) + ".go", "third-party and standard libraries behave as documented"},
		},
		"assumptions": []string{
			"linux/amd64, default build tags, non-test files of the main module",
			"every CFG path of go/ssa is considered feasible (can only cause alarms, never hide a violation), except E1b pruning on identical SSA booleans",
			"the structural clauses decided are necessary conditions of the property, not the behaviour itself (see not_decided)",
		},
	}
	b, _ := json.MarshalIndent(ev, "", " ")
	os.MkdirAll(filepath.Join(verifDir, "evidence"), 0o755)
	if err := os.WriteFile(filepath.Join(verifDir, "evidence", r.Prop+".json"), b, 0o644); err != nil {
		fmt.Printf("ERROR cannot write evidence: %v\n", err)
		if exit == 0 {
			exit = 2
		}
	}
	fmt.Printf("%s %s: %d rules, %d obligations, %d discharged, %d violations, %d known findings, %d errors; %d packages, %d functions (%.1fs)\n",
		r.Prop, tier, len(r.Rules), len(all), discharged, nViol, nKnown, nErr, len(c.Pkgs), len(c.Fns), wall)
	for _, st := range stats {
		fmt.Printf("  %-8s %-10s instances=%-3d min=%-3d viol=%d known=%d err=%d  %s\n", st.ID, st.Engine, st.Instances, st.Min, st.Violations, st.Known, st.Errors, st.Doc)
	}
	return exit
}
