package main

import (
	"fmt"
	"go/token"
	"go/types"
	"strings"

	"golang.org/x/tools/go/ssa"
)

// findInstrs: the instructions of fn satisfying pred — and those of the helpers extracted from it since the pinned
// commit (inlinable callees, see cut.go), which the path search walks into as well.
func findInstrs(fn *ssa.Function, pred func(ssa.Instruction) bool) []ssa.Instruction {
	var out []ssa.Instruction
	if isScanRoot(fn) && !scanBusy {
		scanRoot = fn
	}
	seen := map[*ssa.Function]bool{fn: true}
	var walk func(g *ssa.Function, depth int)
	walk = func(g *ssa.Function, depth int) {
		for _, b := range g.Blocks {
			for _, in := range b.Instrs {
				if pred(in) {
					out = append(out, in)
				}
				if call, ok := in.(*ssa.Call); ok && depth < 2 {
					for _, h := range walkTargets(call) {
						if !seen[h] {
							seen[h] = true
							walk(h, depth+1)
						}
					}
				}
			}
		}
	}
	walk(fn, 0)
	return out
}

// findInstrsIn: the instructions of fn itself (no helpers): for loops that visit every function anyway.
func findInstrsIn(fn *ssa.Function, pred func(ssa.Instruction) bool) []ssa.Instruction {
	var out []ssa.Instruction
	for _, b := range fn.Blocks {
		for _, in := range b.Instrs {
			if pred(in) {
				out = append(out, in)
			}
		}
	}
	return out
}

func callPred(keys ...string) func(ssa.Instruction) bool {
	return func(in ssa.Instruction) bool { return isCallTo(in, keys...) }
}

// guard: each target must be unreachable from entry (or from `from`) once
// the favourable edges are removed. A function without any target site is a
// violation ("required site missing"), never a vacuous pass.
func (ru *Rule) guard(fn *ssa.Function, what string, targets []ssa.Instruction, guardName string, edges EdgePred, assume map[ssa.Value]bool, from ...ssa.Instruction) {
	c := ru.rep.ctx
	if len(targets) == 0 {
		ru.Fail(fmt.Sprintf("%s: %s guarded-by %s", fnKey(fn), what, guardName), fn.Pos(), "required site `"+what+"` not found in function", "")
		return
	}
	for _, t := range targets {
		t := t
		// `return check(..)`: the exit succeeds exactly when the returned value is nil — as if `if v != nil` stood in
		// front of it. When that very test is the guard, the exit passes it by construction.
		if ret, isRet := t.(*ssa.Return); isRet && edges != nil {
			if i := errResultIndex(fn); i >= 0 && i < len(ret.Results) && !isNilConst(retVal(ret, i)) {
				v := ret.Results[i]
				if u, isLd := v.(*ssa.UnOp); isLd && u.Op == token.MUL {
					if sv := loadedValue(u); sv != nil {
						v = sv // through the defer spill
					}
				}
				syn := &ssa.BinOp{Op: token.NEQ, X: v, Y: ssa.NewConst(nil, v.Type())}
				b := t.Block()
				old, had := condOverride[b]
				condOverride[b] = syn
				sat := func() (ok bool) {
					defer func() {
						if recover() != nil {
							ok = false // a predicate that looks at the block's successors: not a nil test
						}
					}()
					return edges(b, 1)
				}()
				if had {
					condOverride[b] = old
				} else {
					delete(condOverride, b)
				}
				if sat {
					ru.OK(fmt.Sprintf("%s: %s guarded-by %s", fnKey(fn), what, guardName), instrPos(t), 1, "the value returned is the guard's own verdict")
					continue
				}
			}
		}
		// a return whose error value is not a constant is a failing exit on the paths that found it non-nil
		q := &Cut{Fn: fn, From: from, Target: func(in ssa.Instruction) bool { return in == t }, EdgeCut: anyEdge(edges, failCut(t)), Assume: assume}
		w, n := q.Run(c)
		key := fmt.Sprintf("%s: %s guarded-by %s", fnKey(fn), what, guardName)
		if w == "" {
			ru.OK(key, instrPos(t), n+1, "")
		} else {
			ru.Fail(key, instrPos(t), "reachable without passing the guard `"+guardName+"`", w)
		}
	}
}

// mustPass: from the start points, every exit instruction satisfying `exit`
// is unreachable unless a separator instruction is crossed.
func (ru *Rule) mustPass(fn *ssa.Function, construct string, q *Cut, n0 int) bool {
	c := ru.rep.ctx
	w, n := q.Run(c)
	if w == "" {
		ru.OK(construct, fn.Pos(), n+n0+1, "")
		return true
	}
	ru.Fail(construct, fn.Pos(), "path exists that does not pass the required step", w)
	return false
}

// onlyIn: every site (function containing a matching instruction) must be in
// the allow-list of function keys (closures count as their root function).
func (ru *Rule) onlyIn(what string, pred func(ssa.Instruction) bool, scope []*ssa.Function, allowed ...string) int {
	c := ru.rep.ctx
	allow := map[string]bool{}
	for _, a := range allowed {
		allow[a] = true
	}
	n := 0
	for _, f := range scope {
		for _, in := range findInstrsIn(f, pred) {
			n++
			// a site inside a helper extracted since the pinned commit belongs to the pinned function(s) that call it
			okRoot := allow[fnKey(f)]
			if !okRoot {
				okRoot = true
				for _, r := range c.PinnedRoots(f) {
					if !allow[fnKey(r)] {
						okRoot = false
					}
				}
			}
			key := fmt.Sprintf("%s in %s", what, fnKey(f))
			if okRoot {
				ru.OK(key, instrPos(in), 1, "")
			} else {
				ru.Fail(key, instrPos(in), fmt.Sprintf("%s is only allowed in %v", what, allowed), "")
			}
		}
	}
	return n
}

// storesToField lists stores/updates to the named field in fn: direct Store
// through FieldAddr, and for map fields MapUpdate / delete on the loaded map.
func isFieldWrite(in ssa.Instruction, key string) bool {
	switch x := in.(type) {
	case *ssa.Store:
		f, base := fieldAddrOf(x.Addr)
		return f != nil && fieldKeyOf(base, f) == key
	case *ssa.MapUpdate:
		f, base := loadOfField(strip2(x.Map))
		return f != nil && fieldKeyOf(base, f) == key
	case *ssa.Call:
		if calleeKey(x) == "builtin.delete" && len(x.Call.Args) > 0 {
			f, base := loadOfField(strip2(x.Call.Args[0]))
			return f != nil && fieldKeyOf(base, f) == key
		}
	}
	return false
}

// strip2 strips conversions but does not resolve loads of locals.
func strip2(v ssa.Value) ssa.Value {
	for {
		switch x := v.(type) {
		case *ssa.ChangeType:
			v = x.X
		case *ssa.ChangeInterface:
			v = x.X
		case *ssa.MakeInterface:
			v = x.X
		case *ssa.Convert:
			v = x.X
		case *ssa.Parameter:
			// inside a helper the path search walked into, a parameter is the caller's argument (see frameArgs)
			a, ok := frameArgs[x]
			if !ok && scanRoot != nil && x.Parent() != scanRoot && inlinable(x.Parent()) {
				// outside a path search: the argument of the scanned function's only call of the helper
				if arg := argOfParam(scanRoot, x); arg != nil {
					a, ok = arg, true
				}
			}
			if !ok || a == v {
				return v
			}
			v = a
		case *ssa.UnOp:
			// a variable read inside a closure through its free variable: what it holds in the enclosing function
			// (assigned once, or promoted by lift.go and known at the closure's call)
			_, isFV := x.X.(*ssa.FreeVar)
			_, isFA := x.X.(*ssa.FieldAddr)
			if (!isFV && !isFA) || x.Op != token.MUL {
				return v
			}
			r := resolveLoad(v)
			if r == v {
				return v
			}
			v = r
		default:
			return v
		}
	}
}

func fieldWritePred(key string) func(ssa.Instruction) bool {
	return func(in ssa.Instruction) bool { return isFieldWrite(in, key) }
}

// releasesLike: the instruction is a call of one of the named release
// methods, or a static call of a module function that calls one on every
// path to its return (a wrapper such as closeRawConn(conn, p)); depth 2.
func releasesLike(in ssa.Instruction, names ...string) bool {
	return releasesLikeD(in, 2, names...)
}

func releasesLikeD(in ssa.Instruction, depth int, names ...string) bool {
	if calleeNameIs(in, names...) {
		return true
	}
	if depth <= 0 {
		return false
	}
	ci, ok := in.(ssa.CallInstruction)
	if !ok {
		return false
	}
	callee := ci.Common().StaticCallee()
	if callee == nil || callee.Blocks == nil || callee.Pkg == nil || !strings.HasPrefix(callee.Pkg.Pkg.Path()+"/", Mod) {
		return false
	}
	w, _ := (&Cut{Fn: callee, Target: func(x ssa.Instruction) bool { _, isRet := x.(*ssa.Return); return isRet },
		Sep: func(x ssa.Instruction) bool { return releasesLikeD(x, depth-1, names...) }}).Run(nil)
	return w == ""
}

// passesLike: the instruction satisfies pred, or is a static call of a module
// function every path of which (to its return) passes an instruction that
// does (depth-limited) — a step moved into a helper is still the step.
func passesLike(in ssa.Instruction, pred func(ssa.Instruction) bool, depth int) bool {
	if pred(in) {
		return true
	}
	if depth <= 0 {
		return false
	}
	ci, ok := in.(ssa.CallInstruction)
	if !ok {
		return false
	}
	if _, isGo := in.(*ssa.Go); isGo {
		return false
	}
	callee := ci.Common().StaticCallee()
	if callee == nil || callee.Blocks == nil || callee.Pkg == nil || !strings.HasPrefix(callee.Pkg.Pkg.Path()+"/", Mod) {
		return false
	}
	w, _ := (&Cut{Fn: callee, Target: func(x ssa.Instruction) bool { _, isRet := x.(*ssa.Return); return isRet },
		Sep: func(x ssa.Instruction) bool { return passesLike(x, pred, depth-1) }}).Run(nil)
	return w == ""
}

// writesLike: the instruction satisfies pred, or is a static call (not go) of a module function whose body —
// or that of its static module callees, depth-limited — contains an instruction that does: the effect may happen here.
func writesLike(in ssa.Instruction, pred func(ssa.Instruction) bool, depth int) bool {
	if pred(in) {
		return true
	}
	if depth <= 0 {
		return false
	}
	ci, ok := in.(ssa.CallInstruction)
	if !ok {
		return false
	}
	callee := ci.Common().StaticCallee()
	if callee == nil || callee.Blocks == nil || callee.Pkg == nil || !strings.HasPrefix(callee.Pkg.Pkg.Path()+"/", Mod) {
		return false
	}
	found := false
	allInstrsIn(callee, func(x ssa.Instruction) {
		if !found && writesLike(x, pred, depth-1) {
			found = true
		}
	})
	return found
}

// siteLike: the instruction satisfies pred, or is a static call (not go) of a function that did not exist at the
// pinned commit (a helper extracted since) whose body — through further new helpers — contains an instruction
// that does. Rules that look for "the site where X happens in f" use it so that X moved into a new helper is
// found at the helper's call; siteIn gives the function and instruction where X really is.
func siteLike(in ssa.Instruction, pred func(ssa.Instruction) bool) bool {
	return siteLikeD(in, pred, 3)
}

func siteLikeD(in ssa.Instruction, pred func(ssa.Instruction) bool, depth int) bool {
	if pred(in) {
		return true
	}
	if depth <= 0 {
		return false
	}
	ci, ok := in.(ssa.CallInstruction)
	if !ok {
		return false
	}
	if _, isGo := in.(*ssa.Go); isGo {
		return false
	}
	g := ci.Common().StaticCallee()
	if g == nil || g.Blocks == nil || g.Pkg == nil || !strings.HasPrefix(g.Pkg.Pkg.Path()+"/", Mod) || isPinnedFn(fnKey(g)) {
		return false
	}
	found := false
	allInstrsIn(g, func(x ssa.Instruction) {
		if !found && siteLikeD(x, pred, depth-1) {
			found = true
		}
	})
	return found
}

// siteIn: where pred really holds below a siteLike instruction: the innermost (function, instruction) pairs.
func siteIn(in ssa.Instruction, pred func(ssa.Instruction) bool) []ssa.Instruction {
	if pred(in) {
		return []ssa.Instruction{in}
	}
	ci, ok := in.(ssa.CallInstruction)
	if !ok {
		return nil
	}
	g := ci.Common().StaticCallee()
	if g == nil || g.Blocks == nil || isPinnedFn(fnKey(g)) {
		return nil
	}
	var out []ssa.Instruction
	allInstrsIn(g, func(x ssa.Instruction) {
		if siteLikeD(x, pred, 2) {
			out = append(out, siteIn(x, pred)...)
		}
	})
	return out
}

// blocksDeep: the blocks of fn and of the helpers extracted from it since the pinned commit (see findInstrs).
func blocksDeep(fn *ssa.Function) []*ssa.BasicBlock {
	var out []*ssa.BasicBlock
	if isScanRoot(fn) && !scanBusy {
		scanRoot = fn
	}
	seen := map[*ssa.Function]bool{fn: true}
	var walk func(g *ssa.Function, depth int)
	walk = func(g *ssa.Function, depth int) {
		out = append(out, g.Blocks...)
		for _, b := range g.Blocks {
			for _, in := range b.Instrs {
				if call, ok := in.(*ssa.Call); ok && depth < 2 {
					for _, h := range walkTargets(call) {
						if !seen[h] {
							seen[h] = true
							walk(h, depth+1)
						}
					}
				}
			}
		}
	}
	walk(fn, 0)
	return out
}

// argOfParam: p is a parameter of a helper extracted from f since the pinned commit (see findInstrs): the argument
// f's (unique) call of that helper passes for it; nil when there is no such unique call.
// (scanBusy: argOfParam itself scans with findInstrs; it must not move scanRoot)
var scanBusy bool

func argOfParam(f *ssa.Function, p *ssa.Parameter) ssa.Value {
	if scanBusy {
		return nil
	}
	scanBusy = true
	defer func() { scanBusy = false }()
	h := p.Parent()
	idx := -1
	for i, q := range h.Params {
		if q == p {
			idx = i
		}
	}
	var out ssa.Value
	n := 0
	for _, in := range findInstrs(f, func(in ssa.Instruction) bool {
		call, ok := in.(*ssa.Call)
		return ok && call.Call.StaticCallee() == h
	}) {
		args := in.(*ssa.Call).Call.Args
		if idx >= 0 && idx < len(args) {
			out = args[idx]
			n++
		}
	}
	if n != 1 {
		return nil
	}
	return out
}

// errorsFail (E1): in fn, an error a callee reported and fn looks at makes fn fail: from the call, no return that
// can hand out a nil error is reachable except over the edge on which that error was found nil. A function that
// tests an error says the step can fail; going on to success past the failing edge (a check whose body was lost,
// a condition turned round, `return nil` where `return err` stood) defeats the step. Errors fn never looks at, and
// callees listed in `tolerated` (fn logs and goes on by design), are not examined. Returns the number of calls
// examined.
func (ru *Rule) errorsFail(fn *ssa.Function, tolerated ...string) int {
	c := ru.rep.ctx
	ei := errResultIndex(fn)
	if ei < 0 || fn.Blocks == nil {
		return 0
	}
	tol := map[string]bool{}
	for _, t := range tolerated {
		tol[t] = true
	}
	errT := types.Universe.Lookup("error").Type()
	n := 0
	for _, b := range fn.Blocks {
		for _, in := range b.Instrs {
			call, ok := in.(*ssa.Call)
			if !ok {
				continue
			}
			res := call.Call.Signature().Results()
			if res.Len() == 0 || !types.Identical(res.At(res.Len()-1).Type(), errT) {
				continue
			}
			var v ssa.Value = call
			if res.Len() > 1 {
				v = nil
				for _, ref := range *call.Referrers() {
					if ex, isEx := ref.(*ssa.Extract); isEx && ex.Index == res.Len()-1 {
						v = ex
					}
				}
			}
			if v == nil {
				continue
			}
			used := false
			for _, ref := range *v.Referrers() {
				if _, isDbg := ref.(*ssa.DebugRef); !isDbg {
					used = true
				}
			}
			if !used || tol[calleeKey(call)] || calleeNameIs(call, "Close", "SetDeadline", "SetReadDeadline", "SetWriteDeadline") {
				continue // (a failed Close / deadline is logged at most, everywhere in this code base)
			}
			if k := calleeKey(call); strings.HasPrefix(k, "fmt.") || strings.HasPrefix(k, "errors.") || k == "(context.Context).Err" || k == "context.Cause" {
				continue // (makes or reads an error value; nothing failed here)
			}
			// The rule speaks only where the function's own text makes the case: the error is compared with nil right
			// here (not inside a closure or helper, not after merging with another error), and with nothing else (a
			// function that singles out io.EOF or a token-rejected sentinel goes on by design on some errors).
			nilTested, special := false, false
			refs := append([]ssa.Instruction{}, *v.Referrers()...)
			// (an error kept in a variable with a cell, e.g. a named result a deferred function writes: the loads this
			// store reaches)
			for _, ref := range *v.Referrers() {
				st, isSt := ref.(*ssa.Store)
				if !isSt || st.Val != v {
					continue
				}
				if al, isAl := st.Addr.(*ssa.Alloc); isAl {
					for _, ar := range *al.Referrers() {
						if ld, isLd := ar.(*ssa.UnOp); isLd && ld.Op == token.MUL && ld.Parent() == fn && loadedValue(ld) == v {
							refs = append(refs, *ld.Referrers()...)
						}
					}
				}
			}
			for _, ref := range refs {
				switch x := ref.(type) {
				case *ssa.BinOp:
					if x.Op == token.EQL || x.Op == token.NEQ {
						if isNilConst(x.X) || isNilConst(x.Y) {
							nilTested = true
						} else {
							special = true
						}
					}
				case *ssa.Call:
					if k := calleeKey(x); k == "errors.Is" || k == "errors.As" {
						special = true
					}
				}
			}
			if !nilTested || special {
				continue
			}
			n++
			isV := func(x ssa.Value) bool {
				if x == v {
					return true
				}
				r := resolveLoad(strip2(x))
				return r == v
			}
			bad := ""
			for _, ret := range returnsOf(fn) {
				rv := retVal(ret, ei)
				if ld, isLd := rv.(*ssa.UnOp); isLd && ld.Op == token.MUL {
					if sv := loadedValue(ld); sv != nil {
						rv = strip(sv) // (a named result spilled through its cell because of a defer: what this return stored)
					}
				}
				if !isNilConst(rv) {
					// ... or the tail call of an ordinary function or method that is not handed the error in any form
					// (`return c.Conn.Write(out)`): its verdict has nothing to do with the failure at hand
					if !independentTailCall(rv, call, isV) {
						continue // (anything else may be the failure in another form)
					}
				}
				w, _ := (&Cut{Fn: fn, From: []ssa.Instruction{call}, Target: isInstr(ret), EdgeCut: anyEdge(edgeNil(isV, true), failCut(ret)), StopAtFrom: true}).Run(c)
				if w != "" {
					bad = w
					break
				}
			}
			ru.Check(bad == "", fnKey(fn)+": an error reported by "+calleeKey(call)+" fails the operation", instrPos(call), 1, "", "the step's failure is ignored: the operation goes on to succeed", bad)
		}
	}
	return n
}

// carriesErr: the returned error is computed from the error at hand by a call that takes it as an argument
// (parseError(err), errors.Join(err, cerr)): the failure is handed out in another form.
func carriesErr(rv ssa.Value, isV func(ssa.Value) bool) bool {
	call, ok := strip(rv).(*ssa.Call)
	if !ok {
		if ex, isEx := strip(rv).(*ssa.Extract); isEx {
			call, ok = ex.Tuple.(*ssa.Call)
		}
		if !ok {
			return false
		}
	}
	for _, a := range call.Call.Args {
		if isV(strip(a)) {
			return true
		}
		// a variadic argument list holding it
		if sl, isSl := a.(*ssa.Slice); isSl {
			if al, isAl := sl.X.(*ssa.Alloc); isAl {
				for _, ref := range *al.Referrers() {
					ia, isIA := ref.(*ssa.IndexAddr)
					if !isIA {
						continue
					}
					for _, r2 := range *ia.Referrers() {
						if st, isSt := r2.(*ssa.Store); isSt && st.Addr == ssa.Value(ia) {
							if isV(strip(st.Val)) {
								return true
							}
							// errors.Join(fmt.Errorf(..), ..): not nil whatever the rest is
							if calleeKey(call) == "errors.Join" && isResultOfCall(strip(st.Val), 0, "fmt.Errorf", "errors.New") != nil {
								return true
							}
						}
					}
				}
			}
		}
	}
	return false
}

// lookupOrCreate (E1): the shape of a registry getter. In fn, the constructor runs only past a miss of the lookup in
// the map field; what it made is stored in that map under the function's key parameter before fn returns; and
// every return passes each of the `always` calls (a reference taken for the caller).
func (ru *Rule) lookupOrCreate(fn *ssa.Function, mapKey, ctorKey string, always ...string) {
	c := ru.rep.ctx
	isMap := func(v ssa.Value) bool { return isLoadOfField(mapKey)(strip2(v)) }
	isMiss := func(v ssa.Value) bool {
		ex, ok := resolveLoad(strip2(v)).(*ssa.Extract)
		if !ok || ex.Index != 1 {
			return false
		}
		lk, ok := ex.Tuple.(*ssa.Lookup)
		return ok && lk.CommaOk && isMap(lk.X)
	}
	news := findInstrs(fn, callPred(ctorKey))
	ru.guard(fn, "create", news, "nothing is registered under the key", edgeBool(isMiss, false), nil)
	key := fn.Params[len(fn.Params)-1]
	for _, nw := range news {
		isReg := func(in ssa.Instruction) bool {
			mu, ok := in.(*ssa.MapUpdate)
			if !ok || !isMap(mu.Map) {
				return false
			}
			k := resolveLoad(strip2(mu.Key))
			return derivesFrom(mu.Value, func(v ssa.Value) bool { return v == nw.(ssa.Value) }) && (k == ssa.Value(key) || isParamCellLoad(c, k, key))
		}
		ru.mustPass(fn, fnKey(fn)+": what was created is registered under the key asked for", &Cut{Fn: fn, From: []ssa.Instruction{nw}, Target: isRetInstr, Sep: isReg}, 1)
	}
	for _, k := range always {
		calls := findInstrs(fn, callPred(k))
		w, n := (&Cut{Fn: fn, Target: isRetInstr, Sep: inSet(calls)}).Run(c)
		ru.Check(w == "" && len(calls) >= 1, fnKey(fn)+": every return passes "+calleeShort0(k), fn.Pos(), n+1, "", "the caller's reference is not counted: the scope can be collected under it", w)
	}
}

// independentTailCall: rv is the error result of a call other than `from`, to a declared function or an interface
// method (not a function literal, not ctx.Err / errors.* / fmt.*), none of whose arguments carries the error at
// hand (directly, wrapped by a call, or through a variadic list; three levels).
func independentTailCall(rv ssa.Value, from *ssa.Call, isV func(ssa.Value) bool) bool {
	var call *ssa.Call
	switch x := strip(rv).(type) {
	case *ssa.Call:
		call = x
	case *ssa.Extract:
		call, _ = x.Tuple.(*ssa.Call)
	}
	if call == nil || call == from {
		return false
	}
	k := calleeKey(call)
	if k == "" || k == "(context.Context).Err" || strings.HasPrefix(k, "errors.") || strings.HasPrefix(k, "fmt.") || k == "context.Cause" {
		return false
	}
	if !call.Call.IsInvoke() {
		g := call.Call.StaticCallee()
		if g == nil || g.Parent() != nil {
			return false // a function value or literal: may be the failure path's own helper
		}
	}
	var carries func(v ssa.Value, d int) bool
	carries = func(v ssa.Value, d int) bool {
		if d > 3 {
			return true // (too deep to tell: assume it does)
		}
		if isV(strip(v)) || derivesFrom(v, isV) {
			return true
		}
		switch x := strip(v).(type) {
		case *ssa.Call:
			for _, a := range x.Call.Args {
				if carries(a, d+1) {
					return true
				}
			}
		case *ssa.Slice:
			if al, ok := x.X.(*ssa.Alloc); ok {
				for _, ref := range *al.Referrers() {
					if ia, isIA := ref.(*ssa.IndexAddr); isIA {
						for _, r2 := range *ia.Referrers() {
							if st, isSt := r2.(*ssa.Store); isSt && st.Addr == ssa.Value(ia) && carries(st.Val, d+1) {
								return true
							}
						}
					}
				}
			}
		case *ssa.MakeInterface:
			return carries(x.X, d+1)
		case *ssa.ChangeInterface:
			return carries(x.X, d+1)
		}
		return false
	}
	for _, a := range call.Call.Args {
		if carries(a, 0) {
			return false
		}
	}
	return true
}
