package main

import (
	"fmt"
	"go/constant"
	"go/token"
	"go/types"
	"strings"

	"golang.org/x/tools/go/ssa"
)

// ---------------------------------------------------------------------------
// callee resolution

// calleeKey returns the resolved name of the function or interface method a
// call instruction invokes ("" for a dynamic call of a function value).
func calleeKey(ci ssa.CallInstruction) string {
	cc := ci.Common()
	if cc.IsInvoke() {
		return objKey(cc.Method)
	}
	if f := cc.StaticCallee(); f != nil {
		return staticKey(f)
	}
	if b, ok := cc.Value.(*ssa.Builtin); ok {
		return "builtin." + b.Name()
	}
	return ""
}

// staticKey names a function; instantiations of generics and bound-method
// thunks are named after their origin.
func staticKey(f *ssa.Function) string {
	if o := f.Origin(); o != nil {
		f = o
	}
	if f.Synthetic != "" && f.Object() != nil {
		if fo, ok := f.Object().(*types.Func); ok {
			return objKey(fo)
		}
	}
	return fnKey(f)
}

func isCallTo(in ssa.Instruction, keys ...string) bool {
	ci, ok := in.(ssa.CallInstruction)
	if !ok {
		return false
	}
	k := calleeKey(ci)
	for _, want := range keys {
		if keyMatch(k, want) {
			return true
		}
	}
	return false
}

// keyMatch: exact, or "(pkg.*).Method" matching a method of any type of the
// package (interface methods are named after the interface that declares
// them, which an embedding refactor may change without changing behaviour).
func keyMatch(k, want string) bool {
	if k == want {
		return true
	}
	if i := strings.Index(want, ".*)."); i >= 0 {
		pre, suf := want[:i+1], want[i+2:]
		if strings.HasPrefix(k, pre) && strings.HasSuffix(k, suf) {
			mid := k[len(pre) : len(k)-len(suf)]
			return !strings.ContainsAny(mid, "/.")
		}
	}
	return false
}

// callsIn lists the call instructions (call, go, defer) of fn to one of keys.
// callsIn: the calls of fn to the keyed callees — also those in helpers extracted from fn since the pinned commit
// (see findInstrs); callsInOnly: fn's own instructions only (for loops that visit every function anyway).
func callsIn(fn *ssa.Function, keys ...string) []ssa.CallInstruction {
	var out []ssa.CallInstruction
	for _, in := range findInstrs(fn, func(in ssa.Instruction) bool { return isCallTo(in, keys...) }) {
		out = append(out, in.(ssa.CallInstruction))
	}
	return out
}

func callsInOnly(fn *ssa.Function, keys ...string) []ssa.CallInstruction {
	var out []ssa.CallInstruction
	for _, b := range fn.Blocks {
		for _, in := range b.Instrs {
			if isCallTo(in, keys...) {
				out = append(out, in.(ssa.CallInstruction))
			}
		}
	}
	return out
}

func allInstrsIn(fn *ssa.Function, f func(ssa.Instruction)) {
	for _, b := range fn.Blocks {
		for _, in := range b.Instrs {
			f(in)
		}
	}
}

// callArgs returns the arguments including the receiver as args[0] for both
// static method calls and interface invokes.
func callArgs(ci ssa.CallInstruction) []ssa.Value {
	cc := ci.Common()
	if cc.IsInvoke() {
		return append([]ssa.Value{cc.Value}, cc.Args...)
	}
	return cc.Args
}

// ---------------------------------------------------------------------------
// value provenance

// strip removes representation-only wrappers.
func strip(v ssa.Value) ssa.Value { return stripD(v, 0) }

func stripD(v ssa.Value, depth int) ssa.Value {
	if depth > 8 {
		return v
	}
	for {
		switch x := v.(type) {
		case *ssa.ChangeInterface:
			v = x.X
		case *ssa.MakeInterface:
			v = x.X
		case *ssa.ChangeType:
			v = x.X
		case *ssa.Convert:
			v = x.X
		case *ssa.Phi:
			// on the path the search is on, the phi stands for the operand it received (see cut.go)
			if op, ok := valueOverride[x]; ok && depth < 8 {
				depth++
				v = op
				continue
			}
			// a phi all of whose operands are the same value
			var u ssa.Value
			same := true
			for _, e := range x.Edges {
				if e == ssa.Value(x) {
					continue
				}
				e = stripD(e, depth+1)
				if u == nil {
					u = e
				} else if u != e {
					same = false
				}
			}
			if same && u != nil && u != ssa.Value(x) {
				v = u
			} else {
				return v
			}
		case *ssa.UnOp:
			if x.Op == token.MUL {
				if s := loadedValue(x); s != nil {
					v = s
					continue
				}
				// a variable captured by reference and assigned once in the enclosing function: its value
				if fv, isFV := x.X.(*ssa.FreeVar); isFV && depth < 6 {
					// inside a closure the path search walked into: what the variable held at that call
					if call := frameSite[fv.Parent()]; call != nil {
						if al := boundCell(fv); al != nil {
							if s, ok := liftedAt[call][al]; ok {
								depth++
								v = s
								continue
							}
						}
					}
					if s := capturedValue(fv); s != nil {
						depth++
						v = s
						continue
					}
				}
				if _, isFA := x.X.(*ssa.FieldAddr); isFA && depth < 6 {
					if r := resolveLoad(x); r != ssa.Value(x) {
						depth++
						v = r
						continue
					}
				}
			}
			return v
		case *ssa.FreeVar:
			if s := capturedValue(x); s != nil && depth < 6 {
				if _, isAlloc := s.(*ssa.Alloc); !isAlloc && !isPointerToCell(x) {
					depth++
					v = s
					continue
				}
			}
			return v
		case *ssa.Parameter:
			// inside a helper the path search walked into, a parameter is the caller's argument
			if a, ok := frameArgs[x]; ok && depth < 6 {
				depth++
				v = a
				continue
			}
			// outside a path search: relative to the function being scanned (see scanRoot)
			if scanRoot != nil && depth < 6 && x.Parent() != scanRoot && inlinable(x.Parent()) {
				if a := argOfParam(scanRoot, x); a != nil {
					depth++
					v = a
					continue
				}
			}
			return v
		default:
			return v
		}
	}
}

// frameArgs: while Cut.Run evaluates predicates at a point inside a helper it walked into (a function extracted
// since the pinned commit), the helper's parameters stand for the arguments of the call (set and restored by Run).
var frameArgs = map[*ssa.Parameter]ssa.Value{}

// frameSite: for each closure on the frame stack of the path search, the call the search walked in through.
var frameSite = map[*ssa.Function]*ssa.Call{}

// scanRoot: the pinned function whose code (with the helpers extracted from it) a rule is currently scanning: set
// by findInstrs / blocksDeep / Cut.Run. A parameter of such a helper that is met outside a path search stands for
// the argument of scanRoot's unique call of the helper.
var scanRoot *ssa.Function

// valueOverride: while an edge predicate is evaluated at `if x != nil` with x a phi whose operand on the current
// path is known, strip() resolves x to that operand (set and cleared by Cut.Run).
var valueOverride = map[*ssa.Phi]ssa.Value{}

// loadedValue resolves a load of a local cell (Alloc) to the value most
// recently stored into it: the last store before the load in the same block,
// or, failing that, the unique store to the cell in the function.
func loadedValue(ld *ssa.UnOp) ssa.Value {
	if ld.Op != token.MUL {
		return nil
	}
	al, ok := ld.X.(*ssa.Alloc)
	if !ok {
		return nil
	}
	b := ld.Block()
	idx := -1
	for i, in := range b.Instrs {
		if in == ssa.Instruction(ld) {
			idx = i
			break
		}
	}
	for i := idx - 1; i >= 0; i-- {
		if st, ok := b.Instrs[i].(*ssa.Store); ok && st.Addr == ssa.Value(al) {
			return st.Val
		}
	}
	var only ssa.Value
	n := 0
	for _, r := range *al.Referrers() {
		if st, ok := r.(*ssa.Store); ok && st.Addr == ssa.Value(al) {
			n++
			only = st.Val
		}
	}
	if n == 1 && !capturedAndWritten(al) {
		return only
	}
	if v := reachingStore(al, b, idx); v != nil {
		return v
	}
	// walk up a chain of single predecessors
	cur := b
	for len(cur.Preds) == 1 {
		cur = cur.Preds[0]
		for i := len(cur.Instrs) - 1; i >= 0; i-- {
			if st, ok := cur.Instrs[i].(*ssa.Store); ok && st.Addr == ssa.Value(al) {
				return st.Val
			}
		}
		if cur == b {
			break
		}
	}
	return nil
}

// capturedAndWritten: the cell is captured by a closure that stores to it.
func capturedAndWritten(al *ssa.Alloc) bool {
	for _, r := range *al.Referrers() {
		mc, ok := r.(*ssa.MakeClosure)
		if !ok {
			continue
		}
		fn := mc.Fn.(*ssa.Function)
		if onlyDeferred(mc) {
			continue // writes when the function exits: after every read in its body
		}
		for i, bnd := range mc.Bindings {
			if bnd != ssa.Value(al) {
				continue
			}
			fv := fn.FreeVars[i]
			for _, fr := range *fv.Referrers() {
				if st, ok := fr.(*ssa.Store); ok && st.Addr == ssa.Value(fv) {
					return true
				}
			}
		}
	}
	return false
}

// resultOf: v is the idx-th result of the returned call (through Extract).
func resultOf(v ssa.Value) (ssa.CallInstruction, int) {
	v = strip(v)
	switch x := v.(type) {
	case *ssa.Call:
		return x, 0
	case *ssa.Extract:
		if c, ok := x.Tuple.(*ssa.Call); ok {
			return c, x.Index
		}
	}
	return nil, -1
}

// isResultOfCall: v is result idx (or any, if idx<0) of a call to one of keys.
func isResultOfCall(v ssa.Value, idx int, keys ...string) ssa.CallInstruction {
	c, i := resultOf(v)
	if c == nil || (idx >= 0 && i != idx) {
		return nil
	}
	if isCallTo(c.(ssa.Instruction), keys...) {
		return c
	}
	return nil
}

// derivesFrom: does v's backward slice (within the function; through phi,
// conversions, slicing, append, field loads, binary ops, listed pass-through
// calls) reach a value satisfying src?
func derivesFrom(v ssa.Value, src func(ssa.Value) bool, passThrough ...string) bool {
	seen := map[ssa.Value]bool{}
	// parameters of straight-line module helpers entered on the way stand for the call's arguments
	bind := map[*ssa.Parameter]ssa.Value{}
	var walk func(v ssa.Value) bool
	walk = func(v ssa.Value) bool {
		if v == nil || seen[v] {
			return false
		}
		seen[v] = true
		if src(v) {
			return true
		}
		switch x := v.(type) {
		case *ssa.ChangeInterface:
			return walk(x.X)
		case *ssa.MakeInterface:
			return walk(x.X)
		case *ssa.ChangeType:
			return walk(x.X)
		case *ssa.Convert:
			return walk(x.X)
		case *ssa.TypeAssert:
			return walk(x.X)
		case *ssa.Slice:
			return walk(x.X)
		case *ssa.Phi:
			for _, e := range x.Edges {
				if walk(e) {
					return true
				}
			}
		case *ssa.Extract:
			return walk(x.Tuple)
		case *ssa.BinOp:
			return walk(x.X) || walk(x.Y)
		case *ssa.UnOp:
			if x.Op == token.MUL {
				if r := resolveLoad(x); r != ssa.Value(x) && walk(r) {
					return true
				}
			}
			return walk(x.X)
		case *ssa.FreeVar:
			// a captured variable: what the enclosing function assigned to it
			if isPointerToCell(x) {
				if al := boundCell(x); al != nil {
					return walk(al)
				}
			}
			if s := capturedValue(x); s != nil {
				return walk(s)
			}
			return false
		case *ssa.Alloc:
			for _, r := range *x.Referrers() {
				if st, ok := r.(*ssa.Store); ok && st.Addr == ssa.Value(x) && walk(st.Val) {
					return true
				}
				// stores into fields / elements of the local
				var sub *[]ssa.Instruction
				switch a := r.(type) {
				case *ssa.FieldAddr:
					sub = a.Referrers()
				case *ssa.IndexAddr:
					sub = a.Referrers()
				}
				if sub != nil {
					for _, r2 := range *sub {
						if st, ok := r2.(*ssa.Store); ok && st.Addr == r.(ssa.Value) && walk(st.Val) {
							return true
						}
					}
				}
			}
			return false
		case *ssa.FieldAddr:
			return walk(x.X)
		case *ssa.Field:
			return walk(x.X)
		case *ssa.IndexAddr:
			return walk(x.X)
		case *ssa.Index:
			return walk(x.X)
		case *ssa.Lookup:
			return walk(x.X)
		case *ssa.Call:
			k := calleeKey(x)
			if k == "builtin.append" {
				for _, a := range x.Call.Args {
					if walk(a) {
						return true
					}
				}
				return false
			}
			for _, p := range passThrough {
				if k == p {
					for _, a := range callArgs(x) {
						if walk(a) {
							return true
						}
					}
				}
			}
			// a straight-line helper of the module computing the value: continue in its body
			if h := x.Call.StaticCallee(); inlinable(h) && len(bind) < 16 && len(h.Params) == len(x.Call.Args) && h.Signature.Results().Len() == 1 {
				for i, p := range h.Params {
					bind[p] = x.Call.Args[i]
				}
				for _, ret := range returnsOf(h) {
					if len(ret.Results) == 1 && walk(ret.Results[0]) {
						return true
					}
				}
				return false
			}
			if h := x.Call.StaticCallee(); h != nil && h.Pkg != nil && strings.HasPrefix(h.Pkg.Pkg.Path()+"/", Mod) && straightLine(h) && len(bind) < 16 {
				rets := returnsOf(h)
				if len(rets) == 1 && len(rets[0].Results) == 1 && len(h.Params) == len(x.Call.Args) {
					for i, p := range h.Params {
						bind[p] = x.Call.Args[i]
					}
					return walk(rets[0].Results[0])
				}
			}
		case *ssa.Parameter:
			if a, ok := bind[x]; ok {
				return walk(a)
			}
			// the parameter of a helper extracted since (see resolveLoad): the caller's argument
			if r := resolveLoad(x); r != ssa.Value(x) {
				return walk(r)
			}
		}
		return false
	}
	return walk(v)
}

// ---------------------------------------------------------------------------
// fields

// fieldAddrOf: addr is &x.f ; returns the field object and the base value.
func fieldAddrOf(addr ssa.Value) (*types.Var, ssa.Value) {
	f, base := fieldAddrOfRaw(addr)
	if f == nil {
		return nil, nil
	}
	// (the object read through a variable's cell — in a local predicate: through its free variable — is the object)
	return f, resolveLoad(base)
}

// fieldAddrOfRaw: the base as written (the lock engine names objects by the variable they are reached through).
func fieldAddrOfRaw(addr ssa.Value) (*types.Var, ssa.Value) {
	fa, ok := addr.(*ssa.FieldAddr)
	if !ok {
		return nil, nil
	}
	t := fa.X.Type()
	if p, ok := t.Underlying().(*types.Pointer); ok {
		t = p.Elem()
	}
	st, ok := t.Underlying().(*types.Struct)
	if !ok {
		return nil, nil
	}
	return st.Field(fa.Field), fa.X
}

// loadOfField: v is a load (*&x.f) or a Field(x, f); returns the field.
func loadOfField(v ssa.Value) (*types.Var, ssa.Value) {
	switch x := v.(type) {
	case *ssa.UnOp:
		if x.Op == token.MUL {
			return fieldAddrOf(x.X)
		}
	case *ssa.Field:
		st, ok := x.X.Type().Underlying().(*types.Struct)
		if ok {
			return st.Field(x.Field), x.X
		}
	}
	return nil, nil
}

// fieldKey: "pkg.Type.field" for a field of a named struct type.
func fieldKeyOf(base ssa.Value, f *types.Var) string {
	t := base.Type()
	if p, ok := t.Underlying().(*types.Pointer); ok {
		t = p.Elem()
	}
	return strings.ReplaceAll(types.TypeString(t, nil), Mod, "") + "." + f.Name()
}

// ---------------------------------------------------------------------------
// conditions

// stripNot peels explicit boolean negations.
func stripNot(v ssa.Value) (ssa.Value, bool) {
	neg := false
	for d := 0; ; d++ {
		if call, isCall := v.(*ssa.Call); isCall && d < 4 {
			// `if pred()` with pred a local predicate whose body is one expression: the expression
			if e := pureCallResult(call); e != nil {
				v = e
				continue
			}
		}
		if _, isParam := v.(*ssa.Parameter); isParam && d < 6 {
			// (the boolean parameter of an extracted predicate: the caller's argument)
			if r := resolveLoad(v); r != v {
				v = r
				continue
			}
		}
		u, ok := v.(*ssa.UnOp)
		if ok && u.Op == token.MUL && d < 6 {
			// a boolean variable read through its cell (in a local predicate: through its free variable)
			if r := resolveLoad(v); r != v {
				v = r
				continue
			}
		}
		if !ok || u.Op != token.NOT {
			return v, neg
		}
		v = u.X
		neg = !neg
	}
}

// stripNotRaw: negations only (the path search walks into predicates itself).
func stripNotRaw(v ssa.Value) (ssa.Value, bool) {
	neg := false
	for {
		u, ok := v.(*ssa.UnOp)
		if !ok || u.Op != token.NOT {
			return v, neg
		}
		v = u.X
		neg = !neg
	}
}

// pureCallResult: call is a plain call of a closure or of a helper that did not exist at the pinned commit, whose
// body is a single block that writes nothing and returns one boolean: the expression returned (its leaves are the
// helper's parameters and captured variables, which strip() resolves to the caller's values).
func pureCallResult(call *ssa.Call) ssa.Value {
	if call.Call.IsInvoke() {
		return nil
	}
	g := call.Call.StaticCallee()
	if g == nil || !inlinable(g) || len(g.Blocks) != 1 || g.Signature.Results().Len() != 1 {
		return nil
	}
	if bt, ok := g.Signature.Results().At(0).Type().Underlying().(*types.Basic); !ok || bt.Kind() != types.Bool {
		return nil
	}
	var ret *ssa.Return
	for _, in := range g.Blocks[0].Instrs {
		switch x := in.(type) {
		case *ssa.Store, *ssa.MapUpdate, *ssa.Send, *ssa.Go, *ssa.Defer, *ssa.Panic:
			return nil
		case *ssa.Return:
			ret = x
		}
	}
	if ret == nil || len(ret.Results) != 1 {
		return nil
	}
	return ret.Results[0]
}

func isNilConst(v ssa.Value) bool {
	c, ok := v.(*ssa.Const)
	return ok && c.Value == nil && !isBasicNonNil(c)
}

func isBasicNonNil(c *ssa.Const) bool {
	if b, ok := c.Type().Underlying().(*types.Basic); ok {
		return b.Kind() != types.UntypedNil
	}
	return false
}

// nilCmp: cond is `x != nil` / `x == nil`; returns x and whether the TRUE
// edge means x is nil.
func nilCmp(cond ssa.Value) (x ssa.Value, nilOnTrue bool, ok bool) {
	c, neg := stripNot(cond)
	b, isb := c.(*ssa.BinOp)
	if !isb || (b.Op != token.EQL && b.Op != token.NEQ) {
		return nil, false, false
	}
	var other ssa.Value
	switch {
	case isNilConst(b.Y):
		other = b.X
	case isNilConst(b.X):
		other = b.Y
	default:
		return nil, false, false
	}
	nilOnTrue = (b.Op == token.EQL) != neg
	return other, nilOnTrue, true
}

// boolEdge: for an If on cond c, which successor index (0 true / 1 false) is
// taken when the un-negated base value is `want`.
func boolEdge(cond ssa.Value, base ssa.Value, want bool) (int, bool) {
	c, neg := stripNot(cond)
	if c != base {
		return 0, false
	}
	if want != neg {
		return 0, true
	}
	return 1, true
}

// ifOf returns the If terminating block b, or nil.
func ifOf(b *ssa.BasicBlock) *ssa.If {
	if len(b.Instrs) == 0 {
		return nil
	}
	i, _ := b.Instrs[len(b.Instrs)-1].(*ssa.If)
	if i == nil {
		// a synthetic test in front of a return (rules.go, guard): edge predicates see it through condOf
		if c, ok := condOverride[b]; ok {
			return &ssa.If{Cond: c}
		}
	}
	return i
}

// An EdgePred says whether the succ-th out-edge of block b is a favourable
// ("guard passed") edge.
type EdgePred func(b *ssa.BasicBlock, succ int) bool

// condOverride: while the path-sensitive search evaluates an edge predicate at
// an If whose condition is a boolean phi with a known operand, the operand
// stands in for the condition (single-threaded, set and cleared by Cut.Run).
var condOverride = map[*ssa.BasicBlock]ssa.Value{}

// condOf: the condition the block branches on (nil if it does not end in an If).
func condOf(b *ssa.BasicBlock) ssa.Value {
	if v, ok := condOverride[b]; ok {
		return v
	}
	if i := ifOf(b); i != nil {
		return i.Cond
	}
	return nil
}

func anyEdge(ps ...EdgePred) EdgePred {
	return func(b *ssa.BasicBlock, s int) bool {
		for _, p := range ps {
			if p != nil && p(b, s) {
				return true
			}
		}
		return false
	}
}

// edgeNil: the edge on which value-predicate-matching x is nil (wantNil) or
// non-nil.
func edgeNil(match func(ssa.Value) bool, wantNil bool) EdgePred {
	return func(b *ssa.BasicBlock, s int) bool {
		i := ifOf(b)
		if i == nil {
			return false
		}
		x, nilOnTrue, ok := nilCmp(condOf(b))
		if !ok || !match(strip(x)) {
			return false
		}
		trueIsWanted := nilOnTrue == wantNil
		return (s == 0) == trueIsWanted
	}
}

// edgeBool: the edge on which a boolean satisfying match has value want.
func edgeBool(match func(ssa.Value) bool, want bool) EdgePred {
	return func(b *ssa.BasicBlock, s int) bool {
		i := ifOf(b)
		if i == nil {
			return false
		}
		c, neg := stripNot(condOf(b))
		if !match(strip(c)) {
			return false
		}
		trueIsWanted := want != neg
		return (s == 0) == trueIsWanted
	}
}

// edgeCmp: the edge on which a comparison X op Y (op in EQL/NEQ/LSS/..) for
// which match(binop) holds evaluates to want.
func edgeCmp(match func(*ssa.BinOp) bool, want bool) EdgePred {
	return func(b *ssa.BasicBlock, s int) bool {
		i := ifOf(b)
		if i == nil {
			return false
		}
		c, neg := stripNot(condOf(b))
		bo, ok := c.(*ssa.BinOp)
		if !ok || !match(bo) {
			return false
		}
		trueIsWanted := want != neg
		return (s == 0) == trueIsWanted
	}
}

// eqEdge: the edge on which `a == b` holds for a comparison (EQL or NEQ)
// whose operands satisfy ma and mb (in either order).
func eqEdge(ma, mb func(ssa.Value) bool, wantEqual bool) EdgePred {
	return func(b *ssa.BasicBlock, s int) bool {
		i := ifOf(b)
		if i == nil {
			return false
		}
		c, neg := stripNot(condOf(b))
		bo, ok := c.(*ssa.BinOp)
		if !ok || (bo.Op != token.EQL && bo.Op != token.NEQ) {
			return false
		}
		x, y := strip(bo.X), strip(bo.Y)
		if !((ma(x) && mb(y)) || (ma(y) && mb(x))) {
			return false
		}
		eqOnTrue := (bo.Op == token.EQL) != neg
		return (s == 0) == (eqOnTrue == wantEqual)
	}
}

// ---------------------------------------------------------------------------
// matchers on values

func isCallResult(idx int, keys ...string) func(ssa.Value) bool {
	// remember which results the current property's rules test: the thorough tier audits every call site of
	// these functions for a discarded result (thorough.go, ignoredGuardResults)
	for _, k := range keys {
		if guardCallees[k] == nil {
			guardCallees[k] = map[int]bool{}
		}
		guardCallees[k][idx] = true
	}
	return func(v ssa.Value) bool { return isResultOfCall(v, idx, keys...) != nil }
}

var guardCallees = map[string]map[int]bool{}

func isLoadOfField(key string) func(ssa.Value) bool {
	return func(v ssa.Value) bool {
		f, base := loadOfField(v)
		return f != nil && fieldKeyOf(base, f) == key
	}
}

func isValue(want ssa.Value) func(ssa.Value) bool {
	return func(v ssa.Value) bool { return v == want || strip(v) == strip(want) }
}

func anyValue(ssa.Value) bool { return true }

func isParam(fn *ssa.Function, name string) func(ssa.Value) bool {
	return func(v ssa.Value) bool {
		p, ok := v.(*ssa.Parameter)
		return ok && p.Parent() == fn && paramIs(p, name)
	}
}

func param(fn *ssa.Function, name string) *ssa.Parameter {
	for _, p := range fn.Params {
		if paramIs(p, name) {
			return p
		}
	}
	return nil
}

func constInt(v ssa.Value) (int64, bool) {
	c, ok := v.(*ssa.Const)
	if !ok || c.Value == nil || c.Value.Kind() != constant.Int {
		return 0, false
	}
	return c.Int64(), true
}

func constBool(v ssa.Value) (bool, bool) {
	c, ok := v.(*ssa.Const)
	if !ok || c.Value == nil || c.Value.Kind() != constant.Bool {
		return false, false
	}
	return constant.BoolVal(c.Value), true
}

func constString(v ssa.Value) (string, bool) {
	c, ok := strip(v).(*ssa.Const)
	if !ok || c.Value == nil || c.Value.Kind() != constant.String {
		return "", false
	}
	return constant.StringVal(c.Value), true
}

// ---------------------------------------------------------------------------
// returns

func returnsOf(fn *ssa.Function) []*ssa.Return {
	var out []*ssa.Return
	for _, b := range fn.Blocks {
		if b == fn.Recover {
			continue
		}
		if len(b.Instrs) > 0 {
			if r, ok := b.Instrs[len(b.Instrs)-1].(*ssa.Return); ok {
				out = append(out, r)
			}
		}
	}
	return out
}

// retVal resolves the i-th returned value through defer spilling (a load of
// the named-result cell preceded by the store in the same block chain).
func retVal(r *ssa.Return, i int) ssa.Value {
	if i >= len(r.Results) {
		return nil
	}
	return strip(r.Results[i])
}

// errResultIndex: index of the last result if it is of type error, else -1.
func errResultIndex(fn *ssa.Function) int {
	res := fn.Signature.Results()
	if res.Len() == 0 {
		return -1
	}
	last := res.At(res.Len() - 1).Type()
	if types.Identical(last, types.Universe.Lookup("error").Type()) {
		return res.Len() - 1
	}
	return -1
}

// isSuccessReturn: the error result may be nil at this return: it is the nil constant, or a value that is not
// provably a non-nil error (`return err` after `if err != nil || !ok`, `return helper()`). For the second kind the
// paths on which the value was tested non-nil are failing exits: failCut gives those edges.
func isSuccessReturn(r *ssa.Return) bool {
	i := errResultIndex(r.Parent())
	if i < 0 {
		return false
	}
	v := retVal(r, i)
	if isNilConst(v) {
		return true
	}
	if i < len(r.Results) {
		// through the defer spill, but keeping the conversion to error (a converted concrete value is non-nil)
		raw := r.Results[i]
		for k := 0; k < 3; k++ {
			u, ok := raw.(*ssa.UnOp)
			if !ok || u.Op != token.MUL {
				break
			}
			s := loadedValue(u)
			if s == nil {
				break
			}
			raw = s
		}
		if !errMayBeNil(raw, 0) {
			return false
		}
	}
	if ctxErrAfterDone(v) {
		return false
	}
	// `if err != nil { return err }`: every path to the return has found the value non-nil
	w, _ := (&Cut{Fn: r.Parent(), Target: func(in ssa.Instruction) bool { return in == ssa.Instruction(r) }, EdgeCut: failCut(r)}).Run(nil)
	return w != ""
}

// errMayBeNil: false only when the error value is certainly non-nil.
func errMayBeNil(v ssa.Value, depth int) bool {
	if v == nil {
		return true
	}
	if isNilConst(v) {
		return true
	}
	switch x := v.(type) {
	case *ssa.MakeInterface:
		// a concrete value converted to error: non-nil interface (a nil pointer inside is still a non-nil error)
		return false
	case *ssa.ChangeInterface:
		return errMayBeNil(x.X, depth)
	case *ssa.ChangeType:
		return errMayBeNil(x.X, depth)
	case *ssa.UnOp:
		if x.Op == token.MUL {
			if _, isG := x.X.(*ssa.Global); isG {
				return false // sentinel error variable
			}
			// a local cell: non-nil if every store into it is non-nil
			if al, isAl := x.X.(*ssa.Alloc); isAl && depth < 3 {
				n := 0
				for _, r := range *al.Referrers() {
					switch st := r.(type) {
					case *ssa.Store:
						if st.Addr == ssa.Value(al) {
							n++
							if errMayBeNil(st.Val, depth+1) {
								return true
							}
						}
					case *ssa.UnOp:
					default:
						return true // address escapes (closure, call)
					}
				}
				return n == 0
			}
		}
		return true
	case *ssa.Phi:
		if depth >= 3 {
			return true
		}
		for _, e := range x.Edges {
			if e != v && errMayBeNil(e, depth+1) {
				return true
			}
		}
		return false
	case *ssa.Call:
		return callMayReturnNilErr(x, 0, depth)
	case *ssa.Extract:
		if call, ok := x.Tuple.(*ssa.Call); ok {
			return callMayReturnNilErr(call, x.Index, depth)
		}
	}
	return true
}

// ctxErrAfterDone: v is ctx.Err() evaluated where <-ctx.Done() has been received (the context contract makes it
// non-nil there): the call is dominated by the select case, or by the receive, on Done() of the same context.
func ctxErrAfterDone(v ssa.Value) bool {
	call, ok := v.(*ssa.Call)
	if !ok || calleeKey(call) != "(context.Context).Err" {
		return false
	}
	ctx := call.Call.Value
	isDone := func(ch ssa.Value) bool {
		d, ok := strip(ch).(*ssa.Call)
		return ok && calleeKey(d) == "(context.Context).Done" && sameExpr(d.Call.Value, ctx, 0)
	}
	blk := call.Block()
	for _, b := range call.Parent().Blocks {
		// a plain receive that dominates the call
		for _, in := range b.Instrs {
			if u, ok := in.(*ssa.UnOp); ok && u.Op == token.ARROW && isDone(u.X) && (b.Dominates(blk) && (b != blk || instrIndex(in) < instrIndex(call))) {
				return true
			}
		}
		// the select case
		i := ifOf(b)
		if i == nil || len(b.Succs) != 2 || len(b.Succs[0].Preds) != 1 || !b.Succs[0].Dominates(blk) {
			continue
		}
		bo, ok := i.Cond.(*ssa.BinOp)
		if !ok || bo.Op != token.EQL {
			continue
		}
		ex, ok := bo.X.(*ssa.Extract)
		if !ok || ex.Index != 0 {
			continue
		}
		sel, ok := ex.Tuple.(*ssa.Select)
		k, isC := constInt(bo.Y)
		if !ok || !isC || int(k) >= len(sel.States) {
			continue
		}
		if st := sel.States[k]; st.Dir == types.RecvOnly && isDone(st.Chan) {
			return true
		}
	}
	return false
}

// sameExpr: two SSA values spelling the same pure expression (the same value, or loads of the same field of
// the same base).
func sameExpr(a, b ssa.Value, d int) bool {
	a, b = strip(a), strip(b)
	if a == b {
		return true
	}
	if d > 4 {
		return false
	}
	la, ok1 := a.(*ssa.UnOp)
	lb, ok2 := b.(*ssa.UnOp)
	if ok1 && ok2 && la.Op == token.MUL && lb.Op == token.MUL {
		if la.X == lb.X {
			return true
		}
		fa, ok3 := la.X.(*ssa.FieldAddr)
		fb, ok4 := lb.X.(*ssa.FieldAddr)
		return ok3 && ok4 && fa.Field == fb.Field && sameExpr(fa.X, fb.X, d+1)
	}
	return false
}

func callMayReturnNilErr(call *ssa.Call, idx int, depth int) bool {
	switch calleeKey(call) {
	case "fmt.Errorf", "errors.New":
		return false
	}
	h := call.Call.StaticCallee()
	if h == nil || h.Blocks == nil || depth >= 2 || h.Pkg == nil || !strings.HasPrefix(h.Pkg.Pkg.Path()+"/", Mod) {
		return true
	}
	if h.Recover != nil {
		return true
	}
	for _, ret := range returnsOf(h) {
		if idx >= len(ret.Results) || errMayBeNil(ret.Results[idx], depth+1) {
			return true
		}
	}
	return true && len(returnsOf(h)) == 0
}

// failCut: the edges on which this return's error value has been found non-nil (a failing exit although
// the value returned is not a constant).
func failCut(ret ssa.Instruction) EdgePred {
	r, ok := ret.(*ssa.Return)
	if !ok {
		return func(*ssa.BasicBlock, int) bool { return false }
	}
	i := errResultIndex(r.Parent())
	if i < 0 || isNilConst(retVal(r, i)) {
		return func(*ssa.BasicBlock, int) bool { return false }
	}
	v := strip(retVal(r, i))
	same := func(x ssa.Value) bool {
		if x == v {
			return true
		}
		// two loads of the same cell
		lx, ok1 := x.(*ssa.UnOp)
		lv, ok2 := v.(*ssa.UnOp)
		return ok1 && ok2 && lx.Op == token.MUL && lv.Op == token.MUL && lx.X == lv.X
	}
	direct := edgeNil(same, false)
	phi, isPhi := v.(*ssa.Phi)
	if !isPhi {
		return direct
	}
	// `if err = a(); err == nil { err = b() }; return err`: the returned value is a phi; the edge on which a()'s error
	// was found non-nil is the edge that delivers that very error to the phi: a failing exit as well
	return func(b *ssa.BasicBlock, s int) bool {
		if direct(b, s) {
			return true
		}
		if ifOf(b) == nil || s >= len(b.Succs) || b.Succs[s] != phi.Block() {
			return false
		}
		for i, pb := range phi.Block().Preds {
			if pb != b || i >= len(phi.Edges) {
				continue
			}
			op := strip(phi.Edges[i])
			if edgeNil(func(x ssa.Value) bool { return x == op }, false)(b, s) {
				return true
			}
		}
		return false
	}
}

func describeVal(v ssa.Value) string {
	if v == nil {
		return "<nil>"
	}
	switch x := v.(type) {
	case *ssa.Const:
		return x.String()
	case *ssa.Call:
		return "call " + calleeKey(x)
	case *ssa.Extract:
		if c, ok := x.Tuple.(*ssa.Call); ok {
			return fmt.Sprintf("call %s #%d", calleeKey(c), x.Index)
		}
	case *ssa.Parameter:
		return "param " + x.Name()
	}
	return fmt.Sprintf("%s (%T)", v.Name(), v)
}

// instrIndex returns the index of in within its block.
func instrIndex(in ssa.Instruction) int {
	for i, x := range in.Block().Instrs {
		if x == in {
			return i
		}
	}
	return -1
}

// ---------------------------------------------------------------------------
// variables

// isParamVar: v is the (never reassigned) parameter `name` of fn, seen
// directly, through its spill cell, or — inside a closure — through the free
// variable bound to that cell. c may be nil when fn is not a closure.
func isParamVar(c *Ctx, v ssa.Value, name string) bool {
	v = strip2(v)
	switch x := v.(type) {
	case *ssa.Parameter:
		return paramIs(x, name)
	case *ssa.UnOp:
		if x.Op != token.MUL {
			return false
		}
		return isParamCell(c, x.X, name)
	}
	return false
}

func isParamCell(c *Ctx, cell ssa.Value, name string) bool {
	switch a := cell.(type) {
	case *ssa.Alloc:
		// all stores to the cell (here and in closures) must be the
		// initial spill of the parameter
		nstores := 0
		okStore := false
		for _, r := range *a.Referrers() {
			switch st := r.(type) {
			case *ssa.Store:
				if st.Addr == ssa.Value(a) {
					nstores++
					if p, ok := st.Val.(*ssa.Parameter); ok && paramIs(p, name) {
						okStore = true
					}
				}
			}
		}
		return nstores == 1 && okStore && !capturedAndWritten(a)
	case *ssa.FreeVar:
		fn := a.Parent()
		if c == nil {
			return false
		}
		parent := c.Parent(fn)
		if parent == nil {
			return false
		}
		idx := -1
		for i, fv := range fn.FreeVars {
			if fv == a {
				idx = i
			}
		}
		if idx < 0 {
			return false
		}
		found := false
		ok := true
		allInstrsIn(parent, func(in ssa.Instruction) {
			if mc, isMC := in.(*ssa.MakeClosure); isMC && mc.Fn == ssa.Value(fn) {
				found = true
				if !isParamCell(c, mc.Bindings[idx], name) {
					ok = false
				}
			}
		})
		return found && ok
	}
	return false
}

// phiLeaves returns the non-phi values feeding v (v itself if not a phi).
func phiLeaves(v ssa.Value) []ssa.Value {
	var out []ssa.Value
	seen := map[ssa.Value]bool{}
	bound := map[*ssa.Parameter]ssa.Value{}
	depth := 0
	var walk func(ssa.Value)
	walk = func(v ssa.Value) {
		if seen[v] {
			return
		}
		seen[v] = true
		if p, ok := v.(*ssa.Phi); ok {
			for _, e := range p.Edges {
				walk(e)
			}
			return
		}
		// a value computed by a helper extracted since the pinned commit: what the helper may return, its
		// parameters standing for the call's arguments
		if call, ok := v.(*ssa.Call); ok && depth < 2 {
			if tg := walkTargets(call); len(tg) > 0 && tg[0].Signature.Results().Len() == 1 {
				depth++
				for _, g := range tg {
					if len(g.Params) != len(call.Call.Args) {
						continue
					}
					for i, p := range g.Params {
						bound[p] = call.Call.Args[i]
					}
					for _, ret := range returnsOf(g) {
						if len(ret.Results) == 1 {
							walk(ret.Results[0])
						}
					}
				}
				depth--
				return
			}
		}
		// one result of a multi-result helper extracted since
		if ex, ok := v.(*ssa.Extract); ok && depth < 2 {
			if call, ok := ex.Tuple.(*ssa.Call); ok {
				if tg := walkTargets(call); len(tg) > 0 {
					depth++
					for _, g := range tg {
						if len(g.Params) != len(call.Call.Args) {
							continue
						}
						for i, p := range g.Params {
							bound[p] = call.Call.Args[i]
						}
						for _, ret := range returnsOf(g) {
							if ex.Index < len(ret.Results) {
								walk(ret.Results[ex.Index])
							}
						}
					}
					depth--
					return
				}
			}
		}
		if p, ok := v.(*ssa.Parameter); ok {
			if a, isBound := bound[p]; isBound {
				walk(a)
				return
			}
		}
		// a read of a variable that lives in a cell (it is captured by a closure) where assignments meet: like a
		// phi, every assignment that can reach the read
		if ld, ok := v.(*ssa.UnOp); ok && ld.Op == token.MUL {
			if _, isCell := ld.X.(*ssa.Alloc); isCell {
				if s := loadedValue(ld); s != nil {
					walk(s) // one assignment decides it
					return
				}
			}
			if fv, isFV := ld.X.(*ssa.FreeVar); isFV && isPointerToCell(fv) {
				if s := capturedValue(fv); s != nil {
					walk(s)
					return
				}
			}
			if vals := cellValuesAtLoad(ld); len(vals) > 0 {
				for _, x := range vals {
					walk(x)
				}
				return
			}
		}
		out = append(out, v)
	}
	walk(v)
	return out
}

// cellValuesAtLoad: for a load of a plain local cell — in the declaring function, or through the free variable of a
// closure that is only called directly — the values of the assignments that can reach the load (reaching
// definitions of that one cell; the zero value when no assignment is passed is not reported). nil when the cell
// is not plain or a use of the closure is not a direct call.
func cellValuesAtLoad(ld *ssa.UnOp) []ssa.Value {
	type point struct {
		b *ssa.BasicBlock
		i int
	}
	var al *ssa.Alloc
	var pts []point
	switch x := ld.X.(type) {
	case *ssa.Alloc:
		al = x
		pts = append(pts, point{ld.Block(), instrIndex(ld)})
	case *ssa.FreeVar:
		fn := x.Parent()
		parent := fn.Parent()
		if parent == nil {
			return nil
		}
		idx := -1
		for i, q := range fn.FreeVars {
			if q == x {
				idx = i
			}
		}
		for _, b := range parent.Blocks {
			for _, in := range b.Instrs {
				mc, ok := in.(*ssa.MakeClosure)
				if !ok || mc.Fn != ssa.Value(fn) || idx < 0 || idx >= len(mc.Bindings) {
					continue
				}
				a, isAl := mc.Bindings[idx].(*ssa.Alloc)
				if !isAl || (al != nil && al != a) {
					return nil
				}
				al = a
				for _, r := range *mc.Referrers() {
					if _, isDbg := r.(*ssa.DebugRef); isDbg {
						continue
					}
					call, isCall := r.(*ssa.Call)
					if !isCall || call.Call.Value != ssa.Value(mc) {
						return nil
					}
					pts = append(pts, point{call.Block(), instrIndex(call)})
				}
			}
		}
	}
	if al == nil || len(pts) == 0 {
		return nil
	}
	for _, p := range pts {
		if !cellQuietAt(al, p.b, p.i) {
			return nil
		}
	}
	var stores []*ssa.Store
	for _, r := range *al.Referrers() {
		if st, ok := r.(*ssa.Store); ok && st.Addr == ssa.Value(al) {
			stores = append(stores, st)
		}
	}
	isStoreAt := func(b *ssa.BasicBlock, i int) bool {
		st, ok := b.Instrs[i].(*ssa.Store)
		return ok && st.Addr == ssa.Value(al)
	}
	var out []ssa.Value
	for _, s := range stores {
		reaches := false
		for _, p := range pts {
			// from just after s to p without passing another assignment
			sb, si := s.Block(), instrIndex(s)
			blocked := false
			if sb == p.b && si < p.i {
				for k := si + 1; k < p.i; k++ {
					if isStoreAt(sb, k) {
						blocked = true
					}
				}
				if !blocked {
					reaches = true
					break
				}
			}
			// leave s's block
			tail := false
			for k := si + 1; k < len(sb.Instrs); k++ {
				if isStoreAt(sb, k) {
					tail = true
				}
			}
			if tail {
				continue
			}
			seen := map[*ssa.BasicBlock]bool{}
			work := append([]*ssa.BasicBlock{}, sb.Succs...)
			for len(work) > 0 && !reaches {
				x := work[len(work)-1]
				work = work[:len(work)-1]
				if seen[x] {
					continue
				}
				seen[x] = true
				end := len(x.Instrs)
				if x == p.b {
					end = p.i
				}
				killed := false
				for k := 0; k < end; k++ {
					if isStoreAt(x, k) {
						killed = true
						break
					}
				}
				if x == p.b && !killed {
					reaches = true
					break
				}
				if killed {
					continue
				}
				// (x == p.b and killed before p: paths through the rest of the block may come round again)
				if x == p.b {
					for k := p.i; k < len(x.Instrs); k++ {
						if isStoreAt(x, k) {
							killed = true
						}
					}
					if killed {
						continue
					}
				}
				work = append(work, x.Succs...)
			}
			if reaches {
				break
			}
		}
		if reaches {
			out = append(out, s.Val)
		}
	}
	return out
}

// phiEdgesWhere: the CFG edges over which phi receives an operand satisfying
// pred (nested phis are followed).
func phiEdgesWhere(p *ssa.Phi, pred func(ssa.Value) bool) []CFGEdge {
	var out []CFGEdge
	seen := map[*ssa.Phi]bool{}
	var walk func(p *ssa.Phi)
	walk = func(p *ssa.Phi) {
		if seen[p] {
			return
		}
		seen[p] = true
		for i, e := range p.Edges {
			if q, ok := e.(*ssa.Phi); ok {
				walk(q)
				continue
			}
			if pred(e) {
				pb := p.Block().Preds[i]
				for s, succ := range pb.Succs {
					if succ == p.Block() {
						out = append(out, CFGEdge{pb, s})
					}
				}
			}
		}
	}
	walk(p)
	return out
}

func edgeSet(es []CFGEdge) EdgePred {
	return func(b *ssa.BasicBlock, s int) bool {
		for _, e := range es {
			if e.B == b && e.Succ == s {
				return true
			}
		}
		return false
	}
}

// isDynCallOfField: in is a call through a function-typed struct field.
func isDynCallOfField(in ssa.Instruction, fieldKey string) bool {
	ci, ok := in.(ssa.CallInstruction)
	if !ok {
		return false
	}
	cc := ci.Common()
	if cc.IsInvoke() || cc.StaticCallee() != nil {
		return false
	}
	f, base := loadOfField(strip2(cc.Value))
	return f != nil && fieldKeyOf(base, f) == fieldKey
}

// recvIsField: the receiver (args[0]) of the call is a load of the field.
func recvIsField(ci ssa.CallInstruction, fieldKey string) bool {
	a := callArgs(ci)
	if len(a) == 0 {
		return false
	}
	f, base := loadOfField(strip2(a[0]))
	return f != nil && fieldKeyOf(base, f) == fieldKey
}

func constantInt64(k *types.Const) (int64, bool) {
	v := constant.ToInt(k.Val())
	if v.Kind() != constant.Int {
		return 0, false
	}
	return constant.Int64Val(v)
}

func constStringVal(k *types.Const) string {
	if k.Val().Kind() != constant.String {
		return ""
	}
	return constant.StringVal(k.Val())
}

// finalUses lists the instructions that use v, looking through pure
// conversions (ChangeType, MakeInterface, ChangeInterface, Convert).
func finalUses(v ssa.Value) []ssa.Instruction {
	var out []ssa.Instruction
	refs := v.Referrers()
	if refs == nil {
		return nil
	}
	for _, r := range *refs {
		switch x := r.(type) {
		case *ssa.ChangeType:
			out = append(out, finalUses(x)...)
		case *ssa.MakeInterface:
			out = append(out, finalUses(x)...)
		case *ssa.ChangeInterface:
			out = append(out, finalUses(x)...)
		case *ssa.Convert:
			out = append(out, finalUses(x)...)
		case *ssa.DebugRef:
		default:
			out = append(out, r)
		}
	}
	return out
}

func constStrObj(c *Ctx, pkg, name string) string {
	if k, ok := c.Obj(pkg, name).(*types.Const); ok {
		return constStringVal(k)
	}
	return ""
}

// isParamCellLoad: v is a load of the spill cell of parameter p.
func isParamCellLoad(c *Ctx, v ssa.Value, p *ssa.Parameter) bool {
	ld, ok := strip2(v).(*ssa.UnOp)
	if !ok || ld.Op != token.MUL {
		return false
	}
	al, ok := ld.X.(*ssa.Alloc)
	if !ok {
		return false
	}
	for _, r := range *al.Referrers() {
		if st, isSt := r.(*ssa.Store); isSt && st.Addr == ssa.Value(al) && st.Val == ssa.Value(p) {
			return true
		}
	}
	return false
}

// sliceBase: the array or slice a slice expression is taken from (x for x[l:h]); the value itself otherwise.
func sliceBase(v ssa.Value) ssa.Value {
	v = strip(v)
	for {
		s, ok := v.(*ssa.Slice)
		if !ok {
			return v
		}
		v = strip(s.X)
	}
}

// sameSlice: two slice expressions over the same base with the same (constant or absent) bounds.
func sameSlice(a, b ssa.Value) bool {
	a, b = strip(a), strip(b)
	if a == b {
		return true
	}
	sa, ok1 := a.(*ssa.Slice)
	sb, ok2 := b.(*ssa.Slice)
	if !ok1 || !ok2 || !sameExprAddr(sa.X, sb.X) {
		return false
	}
	eq := func(x, y ssa.Value) bool {
		if x == nil || y == nil {
			return x == nil && y == nil
		}
		kx, okx := constInt(x)
		ky, oky := constInt(y)
		return (okx && oky && kx == ky) || x == y
	}
	return eq(sa.Low, sb.Low) && eq(sa.High, sb.High) && eq(sa.Max, sb.Max)
}

// sameExprAddr: like sameExpr for addresses (&x.f of the same x).
func sameExprAddr(a, b ssa.Value) bool {
	if a == b || sameExpr(a, b, 0) {
		return true
	}
	fa, ok1 := a.(*ssa.FieldAddr)
	fb, ok2 := b.(*ssa.FieldAddr)
	return ok1 && ok2 && fa.Field == fb.Field && (fa.X == fb.X || sameExpr(fa.X, fb.X, 0))
}

// globalKey: "pkgpath.Name" of a package-level variable, module prefix removed.
func globalKey(g *ssa.Global) string {
	if g.Pkg == nil {
		return g.Name()
	}
	return strings.TrimPrefix(g.Pkg.Pkg.Path(), Mod) + "." + g.Name()
}

// resolveVarAddr: an address seen inside a closure, as the captured cell of the enclosing function (or itself).
func resolveVarAddr(c *Ctx, addr ssa.Value, fn *ssa.Function) ssa.Value {
	fv, ok := addr.(*ssa.FreeVar)
	if !ok {
		return addr
	}
	p := c.Parent(fn)
	if p == nil {
		return addr
	}
	var cell ssa.Value
	allInstrsIn(p, func(in ssa.Instruction) {
		if mc, ok := in.(*ssa.MakeClosure); ok && mc.Fn == ssa.Value(fn) {
			for i, q := range fn.FreeVars {
				if q == fv && i < len(mc.Bindings) {
					cell = mc.Bindings[i]
				}
			}
		}
	})
	if cell == nil {
		return addr
	}
	if _, again := cell.(*ssa.FreeVar); again {
		return resolveVarAddr(c, cell, p)
	}
	return cell
}

// eqConstOf: v is `x == K` or `x != K` with an integer constant on either side; isEq tells which.
func eqConstOf(v ssa.Value) (x ssa.Value, k int64, isEq bool, ok bool) {
	b, isB := v.(*ssa.BinOp)
	if !isB || (b.Op != token.EQL && b.Op != token.NEQ) {
		return nil, 0, false, false
	}
	if n, isC := constInt(b.Y); isC {
		return b.X, n, b.Op == token.EQL, true
	}
	if n, isC := constInt(b.X); isC {
		return b.Y, n, b.Op == token.EQL, true
	}
	return nil, 0, false, false
}

// nilCmpOf: v is `x == nil` / `x != nil` with nil on either side; isEq tells which.
func nilCmpOf(v ssa.Value) (x ssa.Value, isEq bool, ok bool) {
	b, isB := v.(*ssa.BinOp)
	if !isB || (b.Op != token.EQL && b.Op != token.NEQ) {
		return nil, false, false
	}
	if isNilConst(b.Y) {
		return b.X, b.Op == token.EQL, true
	}
	if isNilConst(b.X) {
		return b.Y, b.Op == token.EQL, true
	}
	return nil, false, false
}

// nonEmptyTest: v tests whether the string (or slice) satisfying isS is non-empty, in any spelling: `s != ""`,
// `"" == s`, `len(s) > 0`, `len(s) != 0`, `0 < len(s)`, `len(s) >= 1`, ...; sense: v true means non-empty.
func nonEmptyTest(v ssa.Value, isS func(ssa.Value) bool) (is bool, sense bool) {
	b, ok := v.(*ssa.BinOp)
	if !ok {
		return false, false
	}
	isEmptyStr := func(x ssa.Value) bool { s, ok := constString(x); return ok && s == "" }
	if b.Op == token.EQL || b.Op == token.NEQ {
		if (isS(b.X) && isEmptyStr(b.Y)) || (isS(b.Y) && isEmptyStr(b.X)) {
			return true, b.Op == token.NEQ
		}
	}
	isLen := func(x ssa.Value) bool {
		call, ok := x.(*ssa.Call)
		return ok && calleeKey(call) == "builtin.len" && len(call.Call.Args) == 1 && isS(call.Call.Args[0])
	}
	op := b.Op
	var k int64
	var okK bool
	switch {
	case isLen(b.X):
		k, okK = constInt(b.Y)
	case isLen(b.Y):
		k, okK = constInt(b.X)
		if fl, ok := map[token.Token]token.Token{token.LSS: token.GTR, token.GTR: token.LSS, token.LEQ: token.GEQ, token.GEQ: token.LEQ, token.EQL: token.EQL, token.NEQ: token.NEQ}[op]; ok {
			op = fl
		} else {
			okK = false
		}
	}
	if !okK {
		return false, false
	}
	cmp := func(a int64) (bool, bool) {
		switch op {
		case token.EQL:
			return a == k, true
		case token.NEQ:
			return a != k, true
		case token.LSS:
			return a < k, true
		case token.LEQ:
			return a <= k, true
		case token.GTR:
			return a > k, true
		case token.GEQ:
			return a >= k, true
		}
		return false, false
	}
	z, ok0 := cmp(0)
	o, ok1 := cmp(1)
	big, _ := cmp(1 << 40)
	if !ok0 || !ok1 || o != big || z == o {
		return false, false
	}
	return true, o
}

// capturedValue: what a closure's free variable stands for in the enclosing function. For a variable captured by
// reference (the free variable is the address of a cell) the value stored into the cell, provided it is stored
// exactly once and never written inside a closure; for a value captured directly, the bound value. nil otherwise.
var capturedMemo = map[*ssa.FreeVar]ssa.Value{}

func capturedValue(fv *ssa.FreeVar) ssa.Value {
	if v, ok := capturedMemo[fv]; ok {
		return v
	}
	capturedMemo[fv] = nil
	fn := fv.Parent()
	parent := fn.Parent()
	if parent == nil {
		return nil
	}
	idx := -1
	for i, q := range fn.FreeVars {
		if q == fv {
			idx = i
		}
	}
	var bound ssa.Value
	n := 0
	for _, b := range parent.Blocks {
		for _, in := range b.Instrs {
			if mc, ok := in.(*ssa.MakeClosure); ok && mc.Fn == ssa.Value(fn) && idx >= 0 && idx < len(mc.Bindings) {
				bound = mc.Bindings[idx]
				n++
			}
		}
	}
	if n != 1 || bound == nil {
		return nil
	}
	al, isCell := bound.(*ssa.Alloc)
	if rep, isGroup := liftGroupRep[bound]; isGroup {
		al, isCell = rep, true // a loop variable (lift.go): the header's pointer phi stands for the variable
	}
	if !isCell {
		if pfv, isFV := bound.(*ssa.FreeVar); isFV {
			// captured through two levels
			r := capturedValue(pfv)
			capturedMemo[fv] = r
			return r
		}
		capturedMemo[fv] = bound
		return bound
	}
	if !isPointerToCell(fv) {
		return nil
	}
	if liftedCells[al] {
		// a promoted variable (lift.go): what it holds at the closure's calls, when they agree
		var val ssa.Value
		agree := true
		for _, b := range parent.Blocks {
			for _, in := range b.Instrs {
				mc, ok := in.(*ssa.MakeClosure)
				if !ok || mc.Fn != ssa.Value(fn) {
					continue
				}
				for _, r := range *mc.Referrers() {
					if _, isDbg := r.(*ssa.DebugRef); isDbg {
						continue
					}
					call, isCall := r.(*ssa.Call)
					if !isCall || call.Call.Value != ssa.Value(mc) {
						agree = false
						continue
					}
					v, ok := liftedAt[call][al]
					if !ok || (val != nil && val != v) {
						agree = false
					}
					val = v
				}
			}
		}
		if agree && val != nil {
			capturedMemo[fv] = val
			return val
		}
	}
	var stored ssa.Value
	stores := 0
	for _, r := range *al.Referrers() {
		switch x := r.(type) {
		case *ssa.Store:
			if x.Addr == ssa.Value(al) {
				stored = x.Val
				stores++
			}
		}
	}
	if stores != 1 || capturedAndWritten(al) {
		// a variable assigned several times, read by a closure that is only ever called directly: what the nearest
		// dominating assignment stored, when every call site sees the same one
		stored = nil
		for _, b := range parent.Blocks {
			for i, in := range b.Instrs {
				mc, ok := in.(*ssa.MakeClosure)
				if !ok || mc.Fn != ssa.Value(fn) {
					continue
				}
				for _, r := range *mc.Referrers() {
					if _, isDbg := r.(*ssa.DebugRef); isDbg {
						continue
					}
					call, isCall := r.(*ssa.Call)
					if !isCall || call.Call.Value != ssa.Value(mc) {
						return nil
					}
					v := reachingStore(al, call.Block(), instrIndex(call))
					if v == nil || (stored != nil && stored != v) {
						return nil
					}
					stored = v
				}
				_ = i
			}
		}
		capturedMemo[fv] = stored
		return stored
	}
	capturedMemo[fv] = stored
	return stored
}

// cellHazards: the instructions of the declaring function after which the cell may be written by something
// other than its own whole-value stores: where its address is handed to a call or stored, and where a closure that
// writes it (or lets its address escape) is made. A closure used by defer statements only runs when the function
// exits, after every point of its body: no hazard. ok=false when a use is not understood.
type cellHaz struct {
	at []ssa.Instruction
	ok bool
}

var cellHazMemo = map[*ssa.Alloc]*cellHaz{}

func cellHazards(al *ssa.Alloc) *cellHaz {
	if h, ok := cellHazMemo[al]; ok {
		return h
	}
	h := &cellHaz{ok: true}
	cellHazMemo[al] = h
	// quiet: the closure only loads the variable (recursively through closures it makes)
	var quiet func(a ssa.Value, depth int) bool
	quiet = func(a ssa.Value, depth int) bool {
		if depth > 3 {
			return false
		}
		for _, r := range *a.Referrers() {
			switch x := r.(type) {
			case *ssa.DebugRef:
			case *ssa.UnOp:
				if x.Op != token.MUL {
					return false
				}
			case *ssa.MakeClosure:
				fn, ok := x.Fn.(*ssa.Function)
				if !ok {
					return false
				}
				for i, bnd := range x.Bindings {
					if bnd == a && !quiet(fn.FreeVars[i], depth+1) {
						return false
					}
				}
			default:
				return false
			}
		}
		return true
	}
	for _, r := range *al.Referrers() {
		switch x := r.(type) {
		case *ssa.DebugRef:
		case *ssa.Store:
			if x.Addr != ssa.Value(al) {
				h.at = append(h.at, x) // the address itself is stored somewhere
			}
		case *ssa.UnOp:
			if x.Op != token.MUL {
				h.ok = false
			}
		case *ssa.MakeClosure:
			fn, ok := x.Fn.(*ssa.Function)
			if !ok {
				h.ok = false
				continue
			}
			if onlyDeferred(x) {
				continue
			}
			for i, bnd := range x.Bindings {
				if bnd == ssa.Value(al) && !quiet(fn.FreeVars[i], 1) {
					h.at = append(h.at, x)
				}
			}
		case ssa.Instruction:
			h.at = append(h.at, x) // passed to a call, field / element address taken, ...
		}
	}
	return h
}

// cellPlain: nothing but the declaring function's own stores ever writes the cell.
func cellPlain(al *ssa.Alloc) bool {
	h := cellHazards(al)
	return h.ok && len(h.at) == 0
}

// cellQuietAt: no foreign write of the cell can have happened when control is just before instruction idx of b:
// no hazard instruction can run before that point.
func cellQuietAt(al *ssa.Alloc, b *ssa.BasicBlock, idx int) bool {
	h := cellHazards(al)
	if !h.ok {
		return false
	}
	for _, hz := range h.at {
		hb, hi := hz.Block(), instrIndex(hz)
		if hb == b && hi < idx {
			return false
		}
		seen := map[*ssa.BasicBlock]bool{}
		work := append([]*ssa.BasicBlock{}, hb.Succs...)
		for len(work) > 0 {
			x := work[len(work)-1]
			work = work[:len(work)-1]
			if seen[x] {
				continue
			}
			seen[x] = true
			if x == b {
				return false
			}
			work = append(work, x.Succs...)
		}
	}
	return true
}

// onlyDeferred: the closure value is used by defer statements only.
func onlyDeferred(mc *ssa.MakeClosure) bool {
	n := 0
	for _, r := range *mc.Referrers() {
		switch x := r.(type) {
		case *ssa.DebugRef:
		case *ssa.Defer:
			if x.Call.Value != ssa.Value(mc) {
				return false
			}
			n++
		default:
			return false
		}
	}
	return n > 0
}

// reachingStore: the value a plain local cell holds just before instruction idx of block b, when one assignment
// decides it: the nearest store that dominates the point, provided no other store to the cell can run after it on
// a way to the point. nil when undecided (no dominating store, or two assignments meet: that would be a phi).
func reachingStore(al *ssa.Alloc, b *ssa.BasicBlock, idx int) ssa.Value {
	if b == nil || idx < 0 || b.Parent() != al.Parent() || !cellQuietAt(al, b, idx) {
		return nil
	}
	var stores []*ssa.Store
	for _, r := range *al.Referrers() {
		if st, ok := r.(*ssa.Store); ok && st.Addr == ssa.Value(al) {
			stores = append(stores, st)
		}
	}
	lastIn := func(blk *ssa.BasicBlock, before int) *ssa.Store {
		var best *ssa.Store
		bi := -1
		for _, st := range stores {
			if st.Block() != blk {
				continue
			}
			k := instrIndex(st)
			if k < before && k > bi {
				best, bi = st, k
			}
		}
		return best
	}
	var s *ssa.Store
	if s = lastIn(b, idx); s == nil {
		for d := b.Idom(); d != nil && s == nil; d = d.Idom() {
			s = lastIn(d, len(d.Instrs))
		}
	}
	if s == nil {
		return nil
	}
	sIdx := instrIndex(s)
	// another store that reaches the point without passing s again
	for _, o := range stores {
		if o == s {
			continue
		}
		oIdx := instrIndex(o)
		ob := o.Block()
		if ob == s.Block() && oIdx < sIdx {
			// s follows o in the block: leaving o always passes s ... unless the point lies between them
			if ob == b && idx > oIdx && idx <= sIdx {
				return nil
			}
			continue
		}
		if ob == b && oIdx < idx && (s.Block() != b || sIdx < oIdx) {
			return nil // straight down the block from o to the point
		}
		seen := map[*ssa.BasicBlock]bool{}
		work := append([]*ssa.BasicBlock{}, ob.Succs...)
		for len(work) > 0 {
			x := work[len(work)-1]
			work = work[:len(work)-1]
			if seen[x] {
				continue
			}
			seen[x] = true
			if x == s.Block() {
				if x == b && idx <= sIdx {
					return nil
				}
				continue // entering the block from the top runs s before anything after it
			}
			if x == b {
				return nil
			}
			work = append(work, x.Succs...)
		}
	}
	return s.Val
}

// isPointerToCell: the free variable is the address of a captured variable (by-reference capture).
func isPointerToCell(fv *ssa.FreeVar) bool {
	// a function literal captures every variable by reference (bound-method wrappers and thunks capture values)
	if p := fv.Parent(); p != nil && p.Synthetic == "" && p.Parent() != nil {
		if _, isPtr := fv.Type().Underlying().(*types.Pointer); isPtr {
			return true
		}
	}
	refs := fv.Referrers()
	if refs == nil {
		return false
	}
	for _, r := range *refs {
		switch x := r.(type) {
		case *ssa.UnOp:
			if x.Op == token.MUL && x.X == ssa.Value(fv) {
				return true
			}
		case *ssa.Store:
			if x.Addr == ssa.Value(fv) {
				return true
			}
		case *ssa.FieldAddr:
			if x.X == ssa.Value(fv) {
				return true // a field of the captured (struct) variable
			}
		}
	}
	return false
}

// allInstrs: the instructions of fn and of the helpers / local closures it plainly calls (depth 2), as findInstrs
// sees them: a step moved into a helper is still a step of fn. allInstrsIn is fn alone.
func allInstrs(fn *ssa.Function, f func(ssa.Instruction)) {
	if isScanRoot(fn) && !scanBusy {
		scanRoot = fn
	}
	seen := map[*ssa.Function]bool{fn: true}
	var walk func(g *ssa.Function, depth int)
	walk = func(g *ssa.Function, depth int) {
		for _, b := range g.Blocks {
			for _, in := range b.Instrs {
				f(in)
				if call, ok := in.(*ssa.Call); ok && depth < 2 {
					for _, h := range walkTargets(call) {
						if !seen[h] {
							seen[h] = true
							walk(h, depth+1)
						}
					}
				}
			}
		}
	}
	walk(fn, 0)
}

// boundCell: the enclosing function's cell a free variable of a closure refers to (the same one at every place
// the closure is made); nil otherwise.
func boundCell(fv *ssa.FreeVar) *ssa.Alloc {
	fn := fv.Parent()
	parent := fn.Parent()
	if parent == nil {
		return nil
	}
	idx := -1
	for i, q := range fn.FreeVars {
		if q == fv {
			idx = i
		}
	}
	var al *ssa.Alloc
	for _, b := range parent.Blocks {
		for _, in := range b.Instrs {
			mc, ok := in.(*ssa.MakeClosure)
			if !ok || mc.Fn != ssa.Value(fn) || idx < 0 || idx >= len(mc.Bindings) {
				continue
			}
			a, isAl := mc.Bindings[idx].(*ssa.Alloc)
			if !isAl {
				// the pointer phi of a promoted loop-variable group (lift.go): the group's first cell
				a, isAl = liftGroupRep[mc.Bindings[idx]]
			}
			if !isAl || (al != nil && al != a) {
				return nil
			}
			al = a
		}
	}
	return al
}

// resolveLoad: v when it is not a load of a local variable's cell; otherwise what the variable holds there — the
// assignment that decides it (loadedValue), or, for a read through a closure's free variable, the enclosing
// function's value at the call (capturedValue / the frame the path search is in). Nothing else is stripped.
func resolveLoad(v ssa.Value) ssa.Value {
	for d := 0; d < 6; d++ {
		// the parameter of a helper extracted since the pinned commit: the argument of the call the path search
		// walked in through, or of the scanned function's only call of the helper
		if p, isParam := v.(*ssa.Parameter); isParam {
			if a, ok := frameArgs[p]; ok && a != v {
				v = a
				continue
			}
			if scanRoot != nil && p.Parent() != scanRoot && inlinable(p.Parent()) {
				if a := argOfParam(scanRoot, p); a != nil && a != v {
					v = a
					continue
				}
			}
			return v
		}
		ld, ok := v.(*ssa.UnOp)
		if !ok || ld.Op != token.MUL {
			return v
		}
		switch x := ld.X.(type) {
		case *ssa.Alloc:
			s := loadedValue(ld)
			if s == nil {
				return v
			}
			v = s
		case *ssa.FieldAddr:
			// v.f.g of a captured struct variable, read inside the closure: the field of what the variable holds
			root, path := fieldChain(x)
			fv, isFV := root.(*ssa.FreeVar)
			if !isFV || len(path) == 0 || !isPointerToCell(fv) {
				return v
			}
			al := boundCell(fv)
			if al == nil || !liftedCells[al] {
				return v
			}
			var s ssa.Value
			if call := frameSite[fv.Parent()]; call != nil {
				s = liftedAt[call][al]
			}
			if s == nil {
				s = capturedValue(fv)
			}
			if s == nil {
				return v
			}
			return syntheticField(ld, s, path)
		case *ssa.FreeVar:
			if !isPointerToCell(x) {
				return v
			}
			var s ssa.Value
			if call := frameSite[x.Parent()]; call != nil {
				if al := boundCell(x); al != nil {
					s = liftedAt[call][al]
				}
			}
			if s == nil {
				s = capturedValue(x)
			}
			if s == nil {
				return v
			}
			v = s
		default:
			return v
		}
	}
	return v
}

// syntheticField: Field(...Field(s, path[0])..., path[n-1]) standing for the load ld (not part of any block;
// one value per (load, s)).
type synthKey struct {
	ld *ssa.UnOp
	s  ssa.Value
}

var synthFields = map[synthKey]ssa.Value{}

func syntheticField(ld *ssa.UnOp, s ssa.Value, path []int) ssa.Value {
	k := synthKey{ld, s}
	if v, ok := synthFields[k]; ok {
		return v
	}
	v := s
	for _, idx := range path {
		if _, isStruct := v.Type().Underlying().(*types.Struct); !isStruct {
			synthFields[k] = ld
			return ld
		}
		v = newLiftField(ld.Block(), v, idx, ld.Pos())
	}
	synthFields[k] = v
	return v
}

// plainCalledOnly: the closure is made only to be called directly, in the function that makes it (a local
// helper): the path search and the deep scans walk into it from there.
func plainCalledOnly(a *ssa.Function) bool {
	parent := a.Parent()
	if parent == nil {
		return false
	}
	n := 0
	for _, b := range parent.Blocks {
		for _, in := range b.Instrs {
			mc, ok := in.(*ssa.MakeClosure)
			if !ok || mc.Fn != ssa.Value(a) {
				continue
			}
			for _, r := range *mc.Referrers() {
				if _, isDbg := r.(*ssa.DebugRef); isDbg {
					continue
				}
				call, isCall := r.(*ssa.Call)
				if !isCall || call.Call.Value != ssa.Value(mc) {
					return false
				}
				n++
			}
		}
	}
	return n > 0
}

// rootSite: the instruction of f at which `in` happens: in itself when it is one of f's instructions; when it lies
// in a helper / local closure f plainly calls (as findInstrs sees them), the call in f through which it is
// reached; nil when that is not unique.
func rootSite(f *ssa.Function, in ssa.Instruction) ssa.Instruction {
	if in.Parent() == f {
		return in
	}
	var found ssa.Instruction
	n := 0
	var reaches func(g *ssa.Function, depth int) bool
	reaches = func(g *ssa.Function, depth int) bool {
		if g == in.Parent() {
			return true
		}
		if depth >= 2 {
			return false
		}
		for _, b := range g.Blocks {
			for _, x := range b.Instrs {
				if call, ok := x.(*ssa.Call); ok {
					for _, h := range walkTargets(call) {
						if h != g && reaches(h, depth+1) {
							return true
						}
					}
				}
			}
		}
		return false
	}
	for _, b := range f.Blocks {
		for _, x := range b.Instrs {
			if call, ok := x.(*ssa.Call); ok {
				for _, h := range walkTargets(call) {
					if reaches(h, 0) {
						found = x
						n++
						break
					}
				}
			}
		}
	}
	if n != 1 {
		return nil
	}
	return found
}

// isScanRoot: a function rules state obligations about — one of the pinned commit, or a closure (closures are
// analysed as units of their own as well as walked into from the function that calls them); a top-level function
// that did not exist at the pinned commit is a helper extracted since and is only ever seen from its callers.
func isScanRoot(fn *ssa.Function) bool {
	return fn != nil && (fn.Parent() != nil || !inlinable(fn))
}

// enterScan: f is the function an engine is about to examine: helper parameters met from now on stand for the
// arguments of f's calls (see scanRoot).
func enterScan(f *ssa.Function) {
	if isScanRoot(f) && !scanBusy {
		scanRoot = f
	}
}

// asRoot: run body with fn as the function being scanned, also when fn is a helper extracted since the pinned
// commit: for analyses that follow a value INTO a callee and state their predicates over the callee's own
// parameters (the parameters must then not be resolved to the outer caller's arguments).
func asRoot(fn *ssa.Function, body func()) {
	old := scanRoot
	scanRoot = fn
	defer func() { scanRoot = old }()
	body()
}

// ---------------------------------------------------------------------------
// result sources: where the value a function returns is decided

// resSource: one place where result idx of a function gets a value: a return of a non-phi value, or a CFG edge
// over which a phi feeding the returned value receives a non-phi operand. konst: that value as an integer
// constant, when it is one.
type resSource struct {
	ret   ssa.Instruction // set for a return
	edge  *CFGEdge        // set for a phi edge
	val   ssa.Value
	konst int64
	isK   bool
}

func resultSources(f *ssa.Function, idx int) []resSource {
	var out []resSource
	seenPhi := map[*ssa.Phi]bool{}
	var walkPhi func(p *ssa.Phi)
	walkPhi = func(p *ssa.Phi) {
		if seenPhi[p] {
			return
		}
		seenPhi[p] = true
		for i, e := range p.Edges {
			if q, isPhi := e.(*ssa.Phi); isPhi {
				walkPhi(q)
				continue
			}
			pb := p.Block().Preds[i]
			for si, succ := range pb.Succs {
				if succ == p.Block() {
					k, isK := constInt(e)
					out = append(out, resSource{edge: &CFGEdge{pb, si}, val: e, konst: k, isK: isK})
				}
			}
		}
	}
	for _, ret := range returnsOf(f) {
		var r ssa.Instruction = ret
		if idx >= len(ret.Results) {
			continue
		}
		v := ret.Results[idx]
		for d := 0; d < 3; d++ { // (through the spill cell of a named result)
			u, ok := v.(*ssa.UnOp)
			if !ok || u.Op != token.MUL {
				break
			}
			s := loadedValue(u)
			if s == nil {
				break
			}
			v = s
		}
		if p, isPhi := v.(*ssa.Phi); isPhi {
			walkPhi(p)
			continue
		}
		k, isK := constInt(v)
		out = append(out, resSource{ret: r, val: v, konst: k, isK: isK})
	}
	return out
}

// sourcesWhere: the sources satisfying pred, as a Cut target (instruction predicate + edge predicate).
func sourcesWhere(srcs []resSource, pred func(resSource) bool) (func(ssa.Instruction) bool, EdgePred, int) {
	var rets []ssa.Instruction
	var edges []CFGEdge
	for _, s := range srcs {
		if !pred(s) {
			continue
		}
		if s.ret != nil {
			rets = append(rets, s.ret)
		} else if s.edge != nil {
			edges = append(edges, *s.edge)
		}
	}
	return inSet(rets), edgeSet(edges), len(rets) + len(edges)
}

// connectednessRules: the answer of Swarm.connectednessUnlocked as a function of the connections seen, however
// the function is written (early returns, a flag, a state variable): (a) Connected is decided only past an open,
// non-limited connection; (b) once an open non-limited connection was seen nothing but Connected can be the
// answer; (c) Limited is decided only past an open limited connection; (d) once an open limited connection was
// seen the answer is not NotConnected.
func connectednessRules(c *Ctx, ru *Rule, f *ssa.Function, which string) {
	const netP = "core/network"
	connected, limited, notConn := constIntObj(c, netP, "Connected"), constIntObj(c, netP, "Limited"), constIntObj(c, netP, "NotConnected")
	srcs := resultSources(f, 0)
	allK := len(srcs) > 0
	for _, s := range srcs {
		if !s.isK {
			allK = false
		}
	}
	name := "connectednessUnlocked: "
	if !allK {
		ru.Fail(name+"answers are the Connectedness constants", f.Pos(), "a returned value is not one of the constants NotConnected / Limited / Connected", "")
		return
	}
	isClosed := edgeBool(isCallResult(0, "(*p2p/net/swarm.Conn).IsClosed"), false)
	notLimited := edgeBool(isStatLimited, false)
	isLimited := edgeBool(isStatLimited, true)
	var directEdges, limitedEdges []CFGEdge
	for _, b := range blocksDeep(f) {
		for s := range b.Succs {
			if notLimited(b, s) {
				directEdges = append(directEdges, CFGEdge{b, s})
			}
			if isLimited(b, s) {
				limitedEdges = append(limitedEdges, CFGEdge{b, s})
			}
		}
	}
	if len(directEdges) == 0 || len(limitedEdges) == 0 {
		ru.Fail(name+"test of c.Stat().Limited", f.Pos(), "not found", "")
		return
	}
	run := func(key string, q *Cut, n int, why string) {
		if n == 0 && q.From == nil && q.FromEdges == nil {
			ru.Fail(name+key, f.Pos(), "no such answer in the function", "")
			return
		}
		w, ex := q.Run(c)
		ru.Check(w == "", name+key, f.Pos(), ex+1, "", why, w)
	}
	if which == "" || strings.Contains(which, "a") {
		ti, te, n := sourcesWhere(srcs, func(s resSource) bool { return s.konst == connected })
		run("Connected is decided only past !c.IsClosed()", &Cut{Fn: f, Target: ti, TargetEdge: te, EdgeCut: isClosed}, n, "a closed connection counts as connected")
		run("Connected is decided only past !c.Stat().Limited", &Cut{Fn: f, Target: ti, TargetEdge: te, EdgeCut: notLimited}, n, "a limited (relayed) connection is reported as Connected")
	}
	if which == "" || strings.Contains(which, "b") {
		ti, te, _ := sourcesWhere(srcs, func(s resSource) bool { return s.konst != connected })
		run("once an open non-limited connection was seen the answer is Connected", &Cut{Fn: f, FromEdges: directEdges, Target: ti, TargetEdge: te}, 1,
			"a peer with an open direct connection is reported as Limited or NotConnected (e.g. when a limited connection is listed after it)")
	}
	if which == "" || strings.Contains(which, "c") {
		ti, te, n := sourcesWhere(srcs, func(s resSource) bool { return s.konst == limited })
		run("Limited is decided only past c.Stat().Limited", &Cut{Fn: f, Target: ti, TargetEdge: te, EdgeCut: isLimited}, n, "Limited is reported without a limited connection")
	}
	if which == "" || strings.Contains(which, "d") {
		ti, te, _ := sourcesWhere(srcs, func(s resSource) bool { return s.konst == notConn })
		run("once an open limited connection was seen the answer is not NotConnected", &Cut{Fn: f, FromEdges: limitedEdges, Target: ti, TargetEdge: te}, 1,
			"a peer reachable over a relayed connection is reported as NotConnected")
	}
}

// installedFunc: the function a function-typed value stands for: a function literal (closure), a named function, or
// a bound method value `x.m` (go/ssa wraps it in a synthetic $bound function whose body calls the method).
func installedFunc(v ssa.Value) *ssa.Function {
	var g *ssa.Function
	switch x := strip2(v).(type) {
	case *ssa.MakeClosure:
		g, _ = x.Fn.(*ssa.Function)
	case *ssa.Function:
		g = x
	}
	if g == nil {
		return nil
	}
	if g.Synthetic != "" && g.Blocks != nil {
		// wrapper: the one module function it calls
		var target *ssa.Function
		n := 0
		allInstrsIn(g, func(in ssa.Instruction) {
			if ci, ok := in.(ssa.CallInstruction); ok {
				if h := ci.Common().StaticCallee(); h != nil {
					target = h
					n++
				}
			}
		})
		if n == 1 {
			return target
		}
	}
	return g
}

// rangedOverOf: what the loop with header h ranges over: the slice of a `for i := range s` (go/ssa: i < len(s)) or
// the map / string / channel of a range that goes through a Next instruction; nil when h is not such a header.
func rangedOverOf(h *ssa.BasicBlock) ssa.Value {
	if h == nil {
		return nil
	}
	for _, in := range h.Instrs {
		if nx, ok := in.(*ssa.Next); ok {
			if rg, ok := nx.Iter.(*ssa.Range); ok {
				return strip2(rg.X)
			}
		}
	}
	i := ifOf(h)
	if i == nil {
		return nil
	}
	bo, ok := i.Cond.(*ssa.BinOp)
	if !ok || bo.Op != token.LSS {
		return nil
	}
	ln, ok := bo.Y.(*ssa.Call)
	if !ok || calleeKey(ln) != "builtin.len" {
		return nil
	}
	return strip2(ln.Call.Args[0])
}

// walkTargets: the functions a plain call continues in, as far as the engines walk into calls: the static callee
// when it is a helper extracted since the pinned commit or a closure; for a call through a local function variable
// (`dial := func() {..}; if c { dial = func() {..} }; dial()`), every function literal the variable may hold (at
// most four, all of them literals of the calling function). Nil when the call is not walked.
var walkTargetsBusy bool

func walkTargets(call *ssa.Call) []*ssa.Function {
	if call.Call.IsInvoke() {
		return nil
	}
	if g := call.Call.StaticCallee(); g != nil {
		if inlinable(g) {
			return []*ssa.Function{g}
		}
		return nil
	}
	if _, isBuiltin := call.Call.Value.(*ssa.Builtin); isBuiltin || walkTargetsBusy {
		return nil
	}
	switch call.Call.Value.(type) {
	case *ssa.Phi, *ssa.UnOp:
	default:
		return nil
	}
	walkTargetsBusy = true
	defer func() { walkTargetsBusy = false }()
	var out []*ssa.Function
	for _, l := range phiLeaves(call.Call.Value) {
		mc, ok := l.(*ssa.MakeClosure)
		if !ok {
			return nil
		}
		g, ok := mc.Fn.(*ssa.Function)
		if !ok || g.Parent() != call.Parent() || !inlinable(g) || len(g.Params) != len(call.Call.Args) {
			return nil
		}
		dup := false
		for _, x := range out {
			if x == g {
				dup = true
			}
		}
		if !dup {
			out = append(out, g)
		}
	}
	if len(out) > 4 {
		return nil
	}
	return out
}

// isFieldOrGetter: v is a read of the struct field "pkg.Type.Field", directly or through the getter generated for
// protobuf messages ((*pkg.Type).GetField, which answers the field, or its zero value for a nil message).
func isFieldOrGetter(key string) func(ssa.Value) bool {
	i := strings.LastIndex(key, ".")
	typ, field := key[:i], key[i+1:]
	getter := "(*" + typ + ").Get" + field
	direct := isLoadOfField(key)
	return func(v ssa.Value) bool {
		if direct(v) {
			return true
		}
		return isResultOfCall(v, 0, getter) != nil
	}
}

// isRetInstr: in is a return.
func isRetInstr(in ssa.Instruction) bool {
	_, ok := in.(*ssa.Return)
	return ok
}
