package main

import (
	"fmt"
	"go/token"
	"go/types"
	"sort"
	"strings"

	"golang.org/x/tools/go/callgraph"
	"golang.org/x/tools/go/ssa"
)

// Thorough tier. Quick rules resolve callees statically; that is exact for
// direct calls but blind to a function that escapes as a value (method
// value, function variable, interface dispatch). The thorough tier closes
// both gaps:
//
//  T-callers   every who-may-call rule is re-decided on the VTA call graph of
//              the whole program (dynamic call sites resolved by
//              variable-type analysis, synthetic $bound/$thunk wrappers
//              followed to their source-level callers);
//  T-lockorder the acquire-while-holding graph over mutex *classes* of the
//              anchored packages (intra-procedural may-held sets extended by
//              callee acquisition summaries) has no cycle between distinct
//              classes.

// onlyCallers: who-may-call. Static part always; VTA part in the thorough tier.
func (ru *Rule) onlyCallers(what string, keys []string, scope []*ssa.Function, allowed ...string) int {
	n := ru.onlyIn(what, callPred(keys...), scope, allowed...)
	c := ru.rep.ctx
	if c.Tier != "thorough" {
		return n
	}
	allow := map[string]bool{}
	for _, a := range allowed {
		allow[a] = true
	}
	cg := c.CallGraph()
	for _, k := range keys {
		if strings.Contains(k, "*).") && strings.Contains(k, ".*)") {
			continue // interface-method wildcard: every site is an invoke and is seen statically
		}
		f := c.Fn(k)
		if f == nil {
			continue
		}
		node := cg.Nodes[f]
		if node == nil {
			ru.OK(fmt.Sprintf("[vta] %s: no call-graph node (never called)", what), f.Pos(), 1, "")
			continue
		}
		callers := sourceCallers(node)
		if len(callers) == 0 {
			ru.OK(fmt.Sprintf("[vta] %s: no caller", what), f.Pos(), 1, "")
		}
		for _, e := range callers {
			caller := e.Caller.Func
			if caller.Pkg == nil || !strings.HasPrefix(caller.Pkg.Pkg.Path()+"/", Mod) {
				continue
			}
			okRoot := allow[fnKey(caller)]
			if !okRoot {
				okRoot = true
				for _, r := range c.PinnedRoots(caller) {
					if !allow[fnKey(r)] {
						okRoot = false
					}
				}
			}
			key := fmt.Sprintf("[vta] %s in %s", what, fnKey(caller))
			pos := token.NoPos
			if e.Site != nil {
				pos = e.Site.Pos()
			}
			if okRoot {
				ru.OK(key, pos, 1, "")
			} else {
				dyn := ""
				if e.Site != nil && e.Site.Common().StaticCallee() == nil {
					dyn = " (dynamic call: the function escapes as a value)"
				}
				ru.Fail(key, pos, fmt.Sprintf("%s is only allowed in %v%s", what, allowed, dyn), "")
			}
		}
	}
	return n
}

// sourceCallers: in-edges of a node, with synthetic wrappers ($bound, $thunk,
// generic instantiation wrappers) replaced by their own callers.
func sourceCallers(n *callgraph.Node) []*callgraph.Edge {
	var out []*callgraph.Edge
	seen := map[*callgraph.Node]bool{}
	var walk func(n *callgraph.Node)
	walk = func(n *callgraph.Node) {
		if seen[n] {
			return
		}
		seen[n] = true
		for _, e := range n.In {
			if e.Caller.Func != nil && e.Caller.Func.Synthetic != "" && e.Caller.Func.Parent() == nil && e.Caller.Func.Pkg == nil {
				walk(e.Caller)
				continue
			}
			if e.Caller.Func != nil && (strings.HasSuffix(e.Caller.Func.Name(), "$bound") || strings.HasSuffix(e.Caller.Func.Name(), "$thunk")) {
				walk(e.Caller)
				continue
			}
			out = append(out, e)
		}
	}
	walk(n)
	return out
}

// ---------------------------------------------------------------------------
// lock-order graph

type lockEdge struct {
	from, to string
	pos      token.Pos
	via      string
}

// acquiresSummary: mutex classes a function may acquire, directly or through
// static callees (depth-limited).
func acquiresSummary(c *Ctx, f *ssa.Function, depth int, memo map[*ssa.Function]map[string]bool, stack map[*ssa.Function]bool) map[string]bool {
	if m, ok := memo[f]; ok {
		return m
	}
	out := map[string]bool{}
	if depth <= 0 || stack[f] || f.Blocks == nil {
		return out
	}
	stack[f] = true
	allInstrsIn(f, func(in ssa.Instruction) {
		ci, ok := in.(ssa.CallInstruction)
		if !ok {
			return
		}
		if _, isGo := in.(*ssa.Go); isGo {
			return // runs in another goroutine: not nested
		}
		if op, isOp := mutexOps[calleeKey(ci)]; isOp {
			if op.acquire && len(callArgs(ci)) > 0 {
				if cl := mutexClass(callArgs(ci)[0]); cl != "?" {
					out[cl] = true
				}
			}
			return
		}
		if callee := ci.Common().StaticCallee(); callee != nil && callee.Pkg != nil && strings.HasPrefix(callee.Pkg.Pkg.Path()+"/", Mod) {
			for k := range acquiresSummary(c, callee, depth-1, memo, stack) {
				out[k] = true
			}
		}
		// closures called directly
		if mc, isMC := ci.Common().Value.(*ssa.MakeClosure); isMC {
			for k := range acquiresSummary(c, mc.Fn.(*ssa.Function), depth-1, memo, stack) {
				out[k] = true
			}
		}
	})
	delete(stack, f)
	memo[f] = out
	return out
}

func lockOrderEdges(c *Ctx, pkgs []string) []lockEdge {
	var edges []lockEdge
	memo := map[*ssa.Function]map[string]bool{}
	for _, p := range pkgs {
		for _, f := range c.FnsOfPkg(p) {
			if f.Blocks == nil {
				continue
			}
			lf := computeLockFlow(f, heldSet{})
			allInstrsIn(f, func(in ssa.Instruction) {
				ci, ok := in.(ssa.CallInstruction)
				if !ok {
					return
				}
				if _, isGo := in.(*ssa.Go); isGo {
					return
				}
				if _, isDefer := in.(*ssa.Defer); isDefer {
					return
				}
				held := lf.may[in]
				if len(held) == 0 {
					return
				}
				var acq map[string]bool
				via := ""
				if op, isOp := mutexOps[calleeKey(ci)]; isOp {
					if !op.acquire || len(callArgs(ci)) == 0 {
						return
					}
					cl := mutexClass(callArgs(ci)[0])
					if cl == "?" {
						return
					}
					acq = map[string]bool{cl: true}
				} else if callee := ci.Common().StaticCallee(); callee != nil && callee.Pkg != nil && strings.HasPrefix(callee.Pkg.Pkg.Path()+"/", Mod) {
					acq = acquiresSummary(c, callee, 4, memo, map[*ssa.Function]bool{})
					via = " via " + fnKey(callee)
				} else if mc, isMC := ci.Common().Value.(*ssa.MakeClosure); isMC {
					acq = acquiresSummary(c, mc.Fn.(*ssa.Function), 4, memo, map[*ssa.Function]bool{})
					via = " via closure"
				}
				for _, h := range held {
					if h.class == "" || h.class == "?" {
						continue
					}
					for a := range acq {
						if a != h.class {
							edges = append(edges, lockEdge{from: h.class, to: a, pos: instrPos(in), via: fnKey(f) + via})
						}
					}
				}
			})
		}
	}
	return edges
}

// lockOrderRule: no cycle between distinct mutex classes.
func lockOrderRule(c *Ctx, ru *Rule, pkgs []string, minEdges int) {
	edges := lockOrderEdges(c, pkgs)
	adj := map[string]map[string]lockEdge{}
	for _, e := range edges {
		if adj[e.from] == nil {
			adj[e.from] = map[string]lockEdge{}
		}
		if _, ok := adj[e.from][e.to]; !ok {
			adj[e.from][e.to] = e
		}
	}
	var nodes []string
	for k := range adj {
		nodes = append(nodes, k)
	}
	sort.Strings(nodes)
	nEdges := 0
	for _, a := range nodes {
		var tos []string
		for b := range adj[a] {
			tos = append(tos, b)
		}
		sort.Strings(tos)
		for _, b := range tos {
			nEdges++
			e := adj[a][b]
			// is there a path back from b to a?
			seen := map[string]bool{}
			var path []string
			var dfs func(x string) bool
			dfs = func(x string) bool {
				if x == a {
					return true
				}
				if seen[x] {
					return false
				}
				seen[x] = true
				var ys []string
				for y := range adj[x] {
					ys = append(ys, y)
				}
				sort.Strings(ys)
				for _, y := range ys {
					if dfs(y) {
						path = append(path, fmt.Sprintf("%s → %s at %s (%s)", x, y, c.Pos(adj[x][y].pos), adj[x][y].via))
						return true
					}
				}
				return false
			}
			key := fmt.Sprintf("lock order %s → %s is not part of a cycle", a, b)
			if dfs(b) {
				ru.Fail(key, e.pos, "acquire-while-holding cycle between mutex classes: two goroutines taking them in opposite order deadlock", fmt.Sprintf("%s → %s at %s (%s); back: %s", a, b, c.Pos(e.pos), e.via, strings.Join(path, "; ")))
			} else {
				ru.OK(key, e.pos, 1, e.via)
			}
		}
	}
	if nEdges < minEdges {
		ru.Fail("lock-order edges", token.NoPos, fmt.Sprintf("expected at least %d acquire-while-holding edges, found %d", minEdges, nEdges), "")
	}
}

// packages whose mutex classes are examined for order cycles, per property
var lockOrderPkgs = map[string][]string{
	// C03 (resource manager) is not listed: all scopes share one mutex class while the lock order is by scope kind
	// (connection/stream scope → manager.mx → peer/protocol/service scope); a class-level graph reports a cycle that no pair of instances can form.
	"C05": {"p2p/net/swarm"},
	"C06": {"p2p/net/swarm"},
	"C09": {"p2p/host/peerstore/pstoremem", "p2p/host/peerstore/pstoreds"},
	"C10": {"p2p/net/conngater"},
	"C11": {"p2p/protocol/circuitv2/relay", "p2p/protocol/circuitv2/client"},
	"C12": {"p2p/net/swarm", "p2p/protocol/holepunch"},
	"C13": {"p2p/protocol/identify"},
	"C14": {"p2p/net/connmgr"},
	"C15": {"p2p/host/eventbus"},
	"C16": {"p2p/protocol/autonatv2"},
	"C17": {"p2p/protocol/identify"},
	"C18": {"p2p/transport/webtransport"},
	"C20": {"p2p/net/swarm"},
}

// ignoredGuardResults: the functions whose results the property's rules use as guards (recorded while the rules
// were built) are decision procedures: an error or boolean they return says "reject". The rules check the sites
// they name; this audit covers every other call site in the packages the property is anchored in: a call that
// throws the tested result away and can still reach a successful exit is a violation unless tabled with its reason.
var ignoredOK = map[string]string{
	// site (function key) → callee key : reason
	"(*p2p/host/peerstore/pstoreds.dsAddrBook).deleteAddrs → (*p2p/host/peerstore/pstoreds.addrsRecord).clean":                       "clean()'s boolean says whether anything expired; the record is flushed unconditionally right after",
	"(*p2p/host/peerstore/pstoreds.dsAddrBook).setAddrs → (*p2p/host/peerstore/pstoreds.addrsRecord).clean":                          "clean()'s boolean says whether anything expired; the record is flushed unconditionally right after",
	"(*p2p/host/peerstore/pstoreds.dsKeyBook).RemovePeer → (github.com/ipfs/go-datastore.Write).Delete":                              "key book, not the address book: best-effort removal of keys (the interface method has no error result)",
	"(*p2p/host/peerstore/pstoreds.dsPeerMetadata).RemovePeer → (github.com/ipfs/go-datastore.Write).Delete":                         "metadata book, not the address book: best-effort removal (the interface method has no error result)",
	"(*p2p/http/auth.ServerPeerIDAuth).ServeHTTPWithNextHandler → (*p2p/http/auth/internal/handshake.PeerIDAuthHandshakeServer).Run": "the re-run on a fresh handshake with no header only mints a new challenge (state ChallengeClient); the 401 answer carries no identity and next() is not called on that path (C19-R5)",
}

func ignoredGuardResults(c *Ctx, ru *Rule, prop string) {
	keys := make([]string, 0, len(guardCallees))
	for k := range guardCallees {
		if k != "" {
			keys = append(keys, k)
		}
	}
	sort.Strings(keys)
	inScope := map[string]bool{}
	for _, d := range anchorPkgs[prop] {
		inScope[Mod+d] = true
	}
	nSites := 0
	for _, f := range c.Fns {
		if f.Pkg == nil || !inScope[f.Pkg.Pkg.Path()] {
			continue
		}
		f := f
		allInstrsIn(f, func(in ssa.Instruction) {
			ci, ok := in.(ssa.CallInstruction)
			if !ok {
				return
			}
			for _, k := range keys {
				if !isCallTo(in, k) {
					continue
				}
				nSites++
				for idx := range guardCallees[k] {
					used := false
					if x, isCall := in.(*ssa.Call); isCall {
						nres := 1
						if t, ok := x.Type().(*types.Tuple); ok {
							nres = t.Len()
						}
						for _, r := range *x.Referrers() {
							if _, dbg := r.(*ssa.DebugRef); dbg {
								continue
							}
							if nres == 1 {
								used = true
							} else if ex, ok := r.(*ssa.Extract); ok && (idx < 0 || ex.Index == idx) {
								for _, r2 := range *ex.Referrers() {
									if _, dbg := r2.(*ssa.DebugRef); !dbg {
										used = true
									}
								}
							}
						}
					} // go / defer: results are discarded
					if used {
						continue
					}
					site := fnKey(f) + " → " + calleeKey(ci)
					key := fmt.Sprintf("%s: result #%d of %s is examined", fnKey(f), idx, calleeKey(ci))
					// harmless when nothing but failing exits follows (a value computed for an error message)
					if errResultIndex(f) >= 0 {
						w, _ := (&Cut{Fn: f, From: []ssa.Instruction{in}, Target: func(t ssa.Instruction) bool {
							r, isRet := t.(*ssa.Return)
							return isRet && isSuccessReturn(r)
						}}).Run(c)
						if w == "" {
							ru.OK(key, instrPos(in), 1, "discarded, but only failing exits follow")
							continue
						}
					}
					if why, ok := ignoredOK[site]; ok {
						ru.OK(key, instrPos(in), 1, "tabled: "+why)
						continue
					}
					ru.Fail(key, instrPos(in), "a result that the property's rules treat as the accept/reject decision is thrown away at this call", calleeKey(ci))
				}
			}
		})
	}
	ru.OK("call sites of guard functions audited", token.NoPos, nSites, fmt.Sprintf("%d guard functions, packages %v", len(keys), anchorPkgs[prop]))
}

// auditExtras: run in both tiers after the property's own rules.
func auditExtras(c *Ctx, rep *Report) {
	ru := rep.Rule(rep.Prop+"-A1", "E3", 0, "audit: no call site in the packages the property is anchored in discards a result that this property's rules use as a guard (unless only failing exits follow, or tabled with a reason)")
	ignoredGuardResults(c, ru, rep.Prop)
	errorDiscipline(c, rep)
	lockBalance(c, rep)
	optionWiring(c, rep)
	if rep.Prop != "C15" { // (C15-R6 runs it with its strict map)
		ru := rep.Rule(rep.Prop+"-A4", "E1", 0, "audit: in the files the property is anchored in, where a function tests the ok of a comma-ok lookup or type assertion, every dereference of the pointer it yielded lies behind the ok edge or a nil test")
		commaOkDiscipline(c, ru, anchoredFns(c, rep.Prop))
	}
}

func thoroughExtras(c *Ctx, rep *Report) {
	if pkgs, ok := lockOrderPkgs[rep.Prop]; ok {
		ru := rep.Rule(rep.Prop+"-T1", "E4-order", 0, "thorough: the acquire-while-holding graph over the mutex classes of "+strings.Join(pkgs, ", ")+" (may-held sets + callee acquisition summaries, depth 4) has no cycle between distinct classes")
		lockOrderRule(c, ru, pkgs, 0)
	}
}

// anchoredFns: the source functions (literals included) defined in the files a property names as its anchors.
func anchoredFns(c *Ctx, prop string) []*ssa.Function {
	var out []*ssa.Function
	for _, f := range c.Fns {
		if f.Blocks == nil || f.Pkg == nil || !strings.HasPrefix(f.Pkg.Pkg.Path(), Mod) {
			continue
		}
		file := c.Prog.Fset.Position(f.Pos()).Filename
		if strings.HasSuffix(file, "_test.go") || strings.HasSuffix(file, ".pb.go") {
			continue
		}
		for _, a := range anchorFiles[prop] {
			if strings.HasSuffix(file, "/"+a) || strings.Contains(file, "/"+a+"/") {
				out = append(out, f)
				break
			}
		}
	}
	sort.Slice(out, func(i, j int) bool { return out[i].Pos() < out[j].Pos() })
	return out
}

// errorDiscipline (A2): in every function of the anchored files, an error the function looks at fails the function
// (errorsFail, rules.go). The places where the code logs a failure and goes on by design are tabled below, one
// line of reason each; everything else is armed.
func errorDiscipline(c *Ctx, rep *Report) {
	ru := rep.Rule(rep.Prop+"-A2", "E1", 0, "audit: in the files the property is anchored in, an error a function looks at makes it fail: no return that can hand out a nil error is reachable past the edge on which the callee's error was found non-nil (sites that log and go on by design are tabled)")
	n := 0
	for _, f := range anchoredFns(c, rep.Prop) {
		n += ru.errorsFail(f, errTolerated[fnKey(f)]...)
	}
	ru.OK("error-returning calls whose result is looked at", token.NoPos, n, "")
}

// errTolerated: function -> callees whose error it looks at and deliberately survives.
var errTolerated = map[string][]string{
	"(*p2p/host/basic.addrsManager).makeSignedPeerRecord":            {"(core/crypto.Key).Raw"},                                                               // size estimate only: falls back to a generous constant
	"p2p/host/resource-manager.NewResourceManager":                   {"net/netip.ParsePrefix", "p2p/host/resource-manager.NewStatsTraceReporter"},            // unparsable allowlist entry skipped; metrics are optional
	"(*p2p/host/resource-manager.resourceManager).OpenConnection":    {"github.com/multiformats/go-multiaddr/net.ToIP"},                                       // no IP in the endpoint: opened without the per-IP limits
	"(*p2p/host/resource-manager.resourceManager).openConnection":    {"(*p2p/host/resource-manager.resourceScope).AddConn"},                                  // refused by the standard scopes: retried against the allowlist
	"(*p2p/http/auth.ClientPeerIDAuth).AuthenticateWithRoundTripper": {"(*p2p/http/auth.ClientPeerIDAuth).doWithToken"},                                       // rejected token: full handshake instead
	"(p2p/net/swarm.ResolverFromMaDNS).ResolveDNSAddr":               {"(p2p/net/swarm.ResolverFromMaDNS).ResolveDNSAddr"},                                    // an unresolvable nested dnsaddr is dropped
	"(*p2p/net/swarm.Swarm).Listen":                                  {"(*p2p/net/swarm.Swarm).AddListenAddr"},                                                // per-address errors are collected; Listen fails only if none succeeded
	"p2p/protocol/circuitv2/client.Reserve":                          {"github.com/multiformats/go-multiaddr.NewMultiaddrBytes"},                              // unparsable relay address ignored
	"(*p2p/protocol/holepunch.holePuncher).directConnect":            {"(core/host.Host).Connect"},                                                            // failed direct dial: go on to the hole punch
	"p2p/protocol/identify.NewIDService":                             {"(core/event.Bus).Emitter"},                                                            // degraded mode: the service runs without that event
	"(*p2p/protocol/identify.idService).handleIdentifyResponse":      {"(core/peerstore.ProtoBook).SupportsProtocols"},                                        // unknown counts as unsupported
	"p2p/protocol/identify.readAllIDMessages":                        {"(github.com/libp2p/go-msgio/pbio.Reader).ReadMsg"},                                    // io.EOF ends the message sequence: success
	"(*p2p/security/noise.SessionTransport).SecureInbound":           {"github.com/multiformats/go-multiaddr/net.FromNetAddr"},                                // only to log the failed handshake with an address
	"(*p2p/security/noise.Transport).SecureInbound":                  {"github.com/multiformats/go-multiaddr/net.FromNetAddr"},                                // same
	"(*p2p/security/tls.Transport).SecureInbound":                    {"github.com/multiformats/go-multiaddr/net.FromNetAddr"},                                // same
	"p2p/transport/quic.newListener":                                 {"(github.com/multiformats/go-multiaddr.Multiaddr).ValueForProtocol"},                   // a probe: which QUIC version the address carries
	"(*p2p/transport/quic.listener).wrapConn":                        {"core/network.UnwrapConnManagementScope"},                                              // no scope from quicreuse: one is opened here
	"(*p2p/transport/quic.transport).holePunch":                      {"(*math/rand.Rand).Read", "(p2p/transport/quicreuse.RefCountedQUICTransport).WriteTo"}, // carried in punchErr and reported after the loop
	"(*p2p/transport/websocket.WebsocketTransport).maDial":           {"(github.com/multiformats/go-multiaddr.Multiaddr).ValueForProtocol"},                   // SNI component is optional
}

// lockBalance (A3): in every function of the anchored files, a mutex the function acquired is released on every path
// to a return (explicitly, or by a deferred unlock). The functions that hand a held lock on by design are tabled.
func lockBalance(c *Ctx, rep *Report) {
	ru := rep.Rule(rep.Prop+"-A3", "E4", 0, "audit: in the files the property is anchored in, no function returns on some path with a mutex it acquired still held (and no deferred unlock registered); functions that hand the lock on by design are tabled")
	n := 0
	for _, f := range anchoredFns(c, rep.Prop) {
		lf := computeLockFlow(f, heldSet{})
		if why, ok := lockHandOver[fnKey(f)]; ok {
			ru.OK(fnKey(f)+": lock balance", f.Pos(), 1, "tabled: "+why)
			continue
		}
		acquired := map[string]bool{}
		for in, h := range lf.may {
			_ = in
			for k := range h {
				acquired[k] = true
			}
		}
		releases := false
		for _, b := range f.Blocks {
			for _, in := range b.Instrs {
				if call, ok := in.(*ssa.Call); ok {
					if op, isM := mutexOps[calleeKey(call)]; isM && !op.acquire {
						releases = true
					}
				}
				if d, ok := in.(*ssa.Defer); ok {
					if op, isM := mutexOps[calleeKey(d)]; isM && !op.acquire {
						releases = true
					}
				}
			}
		}
		if len(acquired) == 0 && !releases {
			continue
		}
		n++
		var rets []*ssa.Return
		for ret := range lf.exitMay {
			rets = append(rets, ret)
		}
		sort.Slice(rets, func(i, j int) bool { return rets[i].Pos() < rets[j].Pos() })
		bad := ""
		var badPos token.Pos
		for _, ret := range rets {
			var ks []string
			for k := range lf.exitBal[ret] {
				if !lf.exitDeferred[ret][k] {
					ks = append(ks, k)
				}
			}
			sort.Strings(ks)
			if len(ks) > 0 && bad == "" {
				bad = "a path returns with " + strings.Join(ks, ", ") + " still held and no deferred unlock: the next acquirer blocks forever"
				badPos = ret.Pos()
			}
		}
		// ... and none is acquired again while it is certainly still held (write mode: the goroutine blocks on itself)
		for _, b := range f.Blocks {
			for _, in := range b.Instrs {
				call, ok := in.(*ssa.Call)
				if !ok {
					continue
				}
				op, isM := mutexOps[calleeKey(call)]
				if !isM || !op.acquire || len(call.Call.Args) == 0 {
					continue
				}
				k := pathOf(call.Call.Args[0])
				if hl, held := lf.must[in][k]; held && (hl.mode == modeW || op.mode == modeW) && bad == "" {
					bad = k + " is acquired again while it is certainly still held: the goroutine blocks on itself"
					badPos = in.Pos()
				}
			}
		}
		// ... a deferred unlock belongs to a lock this function takes
		for _, b := range f.Blocks {
			for _, in := range b.Instrs {
				d, ok := in.(*ssa.Defer)
				if !ok {
					continue
				}
				if op, isM := mutexOps[calleeKey(d)]; isM && !op.acquire && len(d.Call.Args) > 0 && f.Parent() == nil {
					if k := pathOf(d.Call.Args[0]); !acquired[k] && bad == "" {
						bad = k + " is released by a deferred call although this function never acquires it: the runtime panics (or another holder's critical section is opened)"
						badPos = in.Pos()
					}
				}
			}
		}
		// ... and none it acquires somewhere is released at a point where it cannot be held (the runtime panics)
		for _, b := range f.Blocks {
			for _, in := range b.Instrs {
				call, ok := in.(*ssa.Call)
				if !ok {
					continue
				}
				op, isM := mutexOps[calleeKey(call)]
				if !isM || op.acquire || len(call.Call.Args) == 0 {
					continue
				}
				k := pathOf(call.Call.Args[0])
				// (a function literal runs in the lock context of the function around it: not judged here)
				if _, held := lf.may[in][k]; !held && f.Parent() == nil && bad == "" {
					bad = k + " is released at a point where it cannot be held: the runtime panics (or another holder's critical section is opened)"
					badPos = in.Pos()
				}
			}
		}
		if bad == "" {
			ru.OK(fnKey(f)+": every acquired mutex is released on every path to a return", f.Pos(), len(rets), "")
		} else {
			if badPos == token.NoPos {
				badPos = f.Pos()
			}
			ru.Fail(fnKey(f)+": every acquired mutex is released on every path to a return", badPos, bad, "")
		}
	}
	ru.OK("functions that acquire a mutex", token.NoPos, n, "")
}

// lockHandOver: functions that return with a lock held on purpose.
var lockHandOver = map[string]string{
	"(*p2p/host/eventbus.basicBus).withNode": "hands the node lock to the goroutine that runs the second callback, which releases it (C15-R2 checks the contract)",
}

// optionWiring (A5): an option constructor (With..., or anything that returns an option function) does something
// with every argument it is given: the value reaches a store, a call or a result, in the constructor or in the
// function it returns. An option that drops its argument silently leaves the default in place.
func optionWiring(c *Ctx, rep *Report) {
	ru := rep.Rule(rep.Prop+"-A5", "E6", 0, "audit: in the files the property is anchored in, every option constructor (With...) uses each argument it is given (the value reaches a store, a call or a result in the constructor or in the option function it returns)")
	n := 0
	for _, f := range anchoredFns(c, rep.Prop) {
		if f.Parent() != nil || !strings.HasPrefix(f.Name(), "With") || f.Signature.Recv() != nil {
			continue
		}
		for _, p := range f.Params {
			if p.Name() == "_" || p.Name() == "" {
				continue
			}
			n++
			ru.Check(valueIsUsed(p, 0), fnKey(f)+": uses its argument "+fmt.Sprint(len(f.Params))+"/"+p.Name(), p.Pos(), 1, "", "the option ignores what it was given: the default stays in force", "")
		}
	}
	ru.OK("option arguments examined", token.NoPos, n, "")
}

// valueIsUsed: v has a consumer other than debug info and the plumbing of captures (a cell that only closures read
// whose reads go nowhere).
func valueIsUsed(v ssa.Value, depth int) bool {
	refs := v.Referrers()
	if refs == nil || depth > 4 {
		return true
	}
	for _, r := range *refs {
		switch x := r.(type) {
		case *ssa.DebugRef:
			continue
		case *ssa.Store:
			if x.Val == v {
				if al, ok := x.Addr.(*ssa.Alloc); ok {
					// a local cell: used iff something reads it and uses what it read
					if cellIsRead(al, depth) {
						return true
					}
					continue
				}
			}
			return true
		case *ssa.MakeClosure:
			fn := x.Fn.(*ssa.Function)
			for i, b := range x.Bindings {
				if b == v && i < len(fn.FreeVars) && valueIsUsed(fn.FreeVars[i], depth+1) {
					return true
				}
			}
			continue
		case *ssa.UnOp:
			if x.Op == token.MUL {
				if valueIsUsed(x, depth+1) {
					return true
				}
				continue
			}
			return true
		default:
			return true
		}
	}
	return false
}

func cellIsRead(al *ssa.Alloc, depth int) bool {
	for _, r := range *al.Referrers() {
		switch x := r.(type) {
		case *ssa.DebugRef, *ssa.Store:
			continue
		case *ssa.UnOp:
			if valueIsUsed(x, depth+1) {
				return true
			}
		case *ssa.MakeClosure:
			fn := x.Fn.(*ssa.Function)
			for i, b := range x.Bindings {
				if b == ssa.Value(al) && i < len(fn.FreeVars) && valueIsUsed(fn.FreeVars[i], depth+1) {
					return true
				}
			}
		default:
			return true
		}
	}
	return false
}
