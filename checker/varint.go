package main

import (
	"go/token"

	"golang.org/x/tools/go/ssa"
)

// Sibling consistency with encoding/binary: a varint carries 7 payload bits per
// byte, so a loop that consumes an unsigned value 7 bits at a time (x >>= 7
// around the loop) must go round exactly while x >= 0x80 when it tests x
// before the shift, or until x == 0 when it tests after the shift. The
// continue edge and the exit edge of the loop test are decided through the
// integer-bound tables (any spelling: `x > 0x7f`, `!(x < 128)`, `0x80 <= x`).
//
// varintLoops returns the number of such loops in f and, for each loop whose
// test disagrees, a description.
func varintLoops(f *ssa.Function) (int, []string) {
	n := 0
	var bad []string
	for _, b := range f.Blocks {
		for _, in := range b.Instrs {
			p, ok := in.(*ssa.Phi)
			if !ok {
				break
			}
			// x = phi(.., x >> 7)
			var shr *ssa.BinOp
			for _, e := range p.Edges {
				if bo, ok := e.(*ssa.BinOp); ok && bo.Op == token.SHR && bo.X == ssa.Value(p) {
					if k, isC := constInt(bo.Y); isC && k == 7 {
						shr = bo
					}
				}
			}
			if shr == nil {
				continue
			}
			n++
			// the loop test: an If inside the loop comparing the phi (test-before-shift) or the shifted value
			// (test-after-shift) with a constant
			found := false
			for _, tb := range f.Blocks {
				i := ifOf(tb)
				if i == nil {
					continue
				}
				if _, ok := constOperand(condOf(tb)); !ok {
					continue
				}
				var isA func(ssa.Value) bool
				var contLo, exitHi int64
				switch {
				case usesValue(condOf(tb), p):
					isA = func(v ssa.Value) bool { return v == ssa.Value(p) }
					contLo, exitHi = 0x80, 0x7f
				case usesValue(condOf(tb), shr):
					isA = func(v ssa.Value) bool { return v == ssa.Value(shr) }
					contLo, exitHi = 1, 0
				default:
					continue
				}
				// which successor stays in the loop: the one from which the phi's block is reachable again without leaving
				cont := -1
				for s, succ := range tb.Succs {
					if reachesBlock(succ, p.Block(), tb) {
						if cont >= 0 {
							cont = -2
						} else {
							cont = s
						}
					}
				}
				if cont < 0 {
					continue
				}
				found = true
				okCont := edgeIntBound(isA, contLo, intInf, true)(tb, cont)
				okExit := edgeIntBound(isA, 0, exitHi, true)(tb, 1-cont)
				if !okCont || !okExit {
					bad = append(bad, "loop consuming 7 bits per round continues/exits on a boundary other than 0x80 (continue⇒x>=0x80: "+boolStr(okCont)+", exit⇒x<0x80: "+boolStr(okExit)+")")
				}
			}
			if !found {
				n--
			}
		}
	}
	return n, bad
}

func boolStr(b bool) string {
	if b {
		return "yes"
	}
	return "no"
}

func usesValue(cond ssa.Value, v ssa.Value) bool {
	base, _ := stripNot(cond)
	bo, ok := base.(*ssa.BinOp)
	if !ok {
		return false
	}
	return bo.X == v || bo.Y == v
}

// reachesBlock: target is reachable from start without passing through `avoid`.
func reachesBlock(start, target, avoid *ssa.BasicBlock) bool {
	seen := map[*ssa.BasicBlock]bool{avoid: true}
	var walk func(b *ssa.BasicBlock) bool
	walk = func(b *ssa.BasicBlock) bool {
		if b == target {
			return true
		}
		if seen[b] {
			return false
		}
		seen[b] = true
		for _, s := range b.Succs {
			if walk(s) {
				return true
			}
		}
		return false
	}
	return walk(start)
}
