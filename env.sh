# Sourced by ./check and setup: fully offline Go environment (see DESIGN.md 2.1).
export GOFLAGS=-mod=mod GOPROXY=off GOSUMDB=off GOTOOLCHAIN=local CGO_ENABLED=0
export PATH=/opt/veriftools/go1.26.8/bin:$PATH
unset GOWORK
