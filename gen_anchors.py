#!/usr/bin/env python3
"""gen_anchors.py: regenerate checker/anchors_gen.go (package directories per property) from properties.jsonl."""
import json, os
out = ['// Code generated from /verif/properties.jsonl (anchors.files) by gen_anchors.py; DO NOT EDIT.', '', 'package main', '',
       '// anchorPkgs: the package directories each property is anchored in.', 'var anchorPkgs = map[string][]string{']
base = os.path.dirname(os.path.abspath(__file__))
for l in open(os.path.join(base, 'properties.jsonl')):
    p = json.loads(l)
    dirs = set()
    for f in p['anchors']['files']:
        f = f.split(' ')[0].strip()
        d = f if not f.endswith('.go') else os.path.dirname(f)
        d = d.rstrip('/')
        if '*' in d:
            d = os.path.dirname(d)
        if os.path.isdir('/repo/' + d):
            dirs.add(d)
    out.append('\t"%s": {%s},' % (p['id'], ', '.join('"%s"' % d for d in sorted(dirs))))
out.append('}')
out += ['', '// anchorFiles: the files (or directories) each property names as its anchors.', 'var anchorFiles = map[string][]string{']
for l in open(os.path.join(base, 'properties.jsonl')):
    p = json.loads(l)
    fs = sorted({f.split(' ')[0].strip().rstrip('/') for f in p['anchors']['files'] if os.path.exists('/repo/' + f.split(' ')[0].strip())})
    out.append('\t"%s": {%s},' % (p['id'], ', '.join('"%s"' % f for f in fs)))
out.append('}')
open(os.path.join(base, 'checker/anchors_gen.go'), 'w').write('\n'.join(out) + '\n')
