#!/usr/bin/env python3
"""Rewrites the generated tables of DESIGN.md (between BEGIN/END markers) from evidence/*.json,
seeded/results.json and seeded/benign_results.json. Run after `seeded/run_all.sh`."""
import json, glob, re, os
base = os.path.dirname(os.path.abspath(__file__))
d = open(os.path.join(base, 'DESIGN.md')).read()
res = json.load(open(os.path.join(base, 'seeded/results.json')))
ben = {}
bp = os.path.join(base, 'seeded/benign_results.json')
if os.path.exists(bp):
    ben = json.load(open(bp))
def title(path):
    t = open(path).readline().strip()
    t = re.sub(r'^#\s*', '', t)
    t = re.sub(r'^(Seed\s+)?C\d\d\s*/?\s*(seed|change)?\s*\d\s*[—-]+\s*', '', t, flags=re.I)
    return t.replace('|', '/')
by_rule = {}
for s, v in res.items():
    for r in v['rules']:
        by_rule.setdefault(r, []).append(s)
rows = ["| rule | engine | instances (floor) | what it decides | seeded changes it reports |", "|---|---|---|---|---|"]
for p in sorted(glob.glob(os.path.join(base, 'evidence/C*.json'))):
    e = json.load(open(p))
    for r in e['coverage']['rules']:
        if r['id'].endswith('CTRL') or r['id'].endswith('PANIC') or r['id'].endswith('-T1') or r['id'].endswith('-A1'):
            continue
        rows.append("| %s | %s | %d (%d) | %s | %s |" % (r['id'], r['engine'], r['instances'], r['min_instances'], r['doc'].replace('|', '/'), ' '.join(sorted(by_rule.get(r['id'], [])))))
ruletable = "\n".join(rows)
rows = ["| seed | round | change | status | reported by |", "|---|---|---|---|---|"]
for s in sorted(res):
    rnd = '2' if s[-1] in '34' else '3' if s[-1] in '78' else '4' if s[-1] in 'ab' else '1'
    rows.append("| %s | %s | %s | %s | %s |" % (s, rnd, title(os.path.join(base, 'seeded', s, 'notes.md')), res[s]['status'], ' '.join(res[s]['rules']) or '—'))
n = sum(1 for s in res if res[s]['status'] == 'detected')
m = sum(1 for s in res if res[s]['status'].startswith('detected'))
seedtable = "\n".join(rows) + "\n\n%d of %d seeded changes are reported by a rule of their own property (%d by some check)." % (n, len(res), m)
rows = ["| refactoring | what it rewrites | status | rules that (wrongly) report it |", "|---|---|---|---|"]
for s in sorted(ben):
    rows.append("| %s | %s | %s | %s |" % (s, title(os.path.join(base, 'seeded/benign', s, 'notes.md')), ben[s]['status'], ' '.join(ben[s]['rules']) or '—'))
bentable = "\n".join(rows) + "\n\n%d of %d behaviour-preserving refactorings leave every check silent." % (sum(1 for s in ben if ben[s]['status'] == 'clean'), len(ben))
def put(name, text):
    global d
    a = d.index('<!-- BEGIN:%s -->' % name) + len('<!-- BEGIN:%s -->' % name)
    b = d.index('<!-- END:%s -->' % name)
    d = d[:a] + "\n" + text + "\n" + d[b:]
put('RULETABLE', ruletable)
put('SEEDTABLE', seedtable)
if '<!-- BEGIN:BENIGNTABLE -->' in d:
    put('BENIGNTABLE', bentable)
open(os.path.join(base, 'DESIGN.md'), 'w').write(d)
print("ok")
