#!/usr/bin/env python3
"""Regenerates MANIFEST.json from the claim table below (keeps it schema-valid)."""
import json, os
ENV = ". ./env.sh"
claims = json.load(open(os.path.join(os.path.dirname(__file__), "claims.json")))
props = [json.loads(l)["id"] for l in open(os.path.join(os.path.dirname(__file__), "properties.jsonl"))]
checks, na = [], []
for pid in props:
    c = claims.get(pid)
    if c and c.get("claimed"):
        checks.append({
            "property_id": pid,
            "quick_cmd": "./check %s quick" % pid,
            "thorough_cmd": "./check %s thorough" % pid,
            "evidence_file": "/verif/evidence/%s.json" % pid,
            "replay_cmd_template": "./check --replay {path}",
            "engine": "lp2pcheck",
            "level_claimed": {"category": "other", "text": c["text"], "design_ref": "DESIGN.md section 7, " + pid},
            "level_note": c["note"],
            "technique": c["technique"],
        })
    else:
        na.append({"property_id": pid, "reason": (c or {}).get("reason", "static rules for this property are not built yet in this revision; nothing is claimed")})
m = {
    "version": 1,
    "setup_cmd": ". ./env.sh && cd checker && go build -o ../bin/lp2pcheck .",
    "hooks": {"guard": "verif", "enable": "none: pure static analysis, /repo is never built with hooks", "baseline_off_cmd": "for m in $(cat /w/out/gomods.txt); do MF=$(cd /repo/$m && . /w/out/goenv.sh && gomodflag); (cd /repo/$m && go test $MF -json -vet=off -count=1 -timeout 25m ./...); done", "source_commits": [], "add_only": True},
    "engines": [{"name": "lp2pcheck", "path": "/verif/checker", "serves_properties": [c["property_id"] for c in checks],
                 "kind_free_text": "repository-specific static analyser over go/packages + go/ssa (CFG separation queries, must-lockset dataflow, who-may-write/call, table agreement, constants); no execution of /repo code"}],
    "checks": checks,
    "not_applicable": na,
    "notes": "Technique family: static analysis only. Every check loads /repo's working tree from source (go/packages, type-checked, SSA) on each run; exit 0 = all obligations discharged (KNOWN-FINDING lines for listed findings), exit 1 + VIOLATION line = an unlisted violation, exit 2 = the checker could not decide (unresolved anchor / type errors). All levels are 'other': structural necessary conditions, see DESIGN.md.",
}
json.dump(m, open(os.path.join(os.path.dirname(__file__), "MANIFEST.json"), "w"), indent=1)
print("claimed:", [c["property_id"] for c in checks])
