#!/bin/bash
# metamorph.sh [-k] <PROP> [transform ...] : metamorphic test of the checker against spelling.
# For each behaviour-preserving transform of bin/refmut, rewrite EVERY applicable site of every non-test Go file
# in the packages the property is anchored in, hand the rewritten files to the checker through -overlay
# (nothing under /repo is touched) and require the property's check to stay silent. Any VIOLATION/ERROR printed
# here is a false alarm of the checker (or a transform bug: the rewritten tree must type-check, which the
# checker's loader verifies).
#   -k : keep the rewritten files (prints the directory)
cd /verif; . ./env.sh
keep=0; if [ "$1" = "-k" ]; then keep=1; shift; fi
prop=$1; shift
REFMUT=${REFMUT:-bin/refmut}
ts=${@:-$($REFMUT -list | sed 's/ (typed)//')}
typed=" $($REFMUT -list | grep '(typed)' | sed 's/ (typed)//' | tr '\n' ' ')"
dirs=$(python3 - $prop <<'PY'
import re,sys
for l in open('/verif/checker/anchors_gen.go'):
    if l.startswith('var anchorFiles'):
        break  # (only the package directories, the first table)
    m=re.match(r'\s*"(C\d+)": \{(.*)\},',l)
    if m and m.group(1)==sys.argv[1]:
        print(' '.join(x.strip().strip('"') for x in m.group(2).split(',')))
PY
)
rc=0
for t in $ts; do
  tmp=$(mktemp -d /tmp/metamorph.XXXXXX); cp known_findings.json $tmp/
  args=""; sites=0
  for d in $dirs; do
    if [[ "$typed" == *" $t "* ]]; then
      # type-aware transform: the whole package at once
      od=$tmp/$(echo $d | tr '/' '_'); mkdir -p $od
      while read -r fn n; do
        [ -z "$fn" ] && continue
        sites=$((sites+n)); args="$args -overlay $d/$fn=$od/$fn"
      done < <($REFMUT -t $t -root ${REPO:-/repo} -dir $d -out $od 2>/dev/null)
      continue
    fi
    for f in $(ls ${REPO:-/repo}/$d/*.go 2>/dev/null | grep -v '_test.go$\|\.pb\.go$'); do
      rel=${f#${REPO:-/repo}/}; out=$tmp/$(echo $rel | tr '/' '_')
      n=$($REFMUT -t $t $f $out 2>/dev/null) || { rm -f $out; continue; }
      [ "$n" = "0" ] && { rm -f $out; continue; }
      sites=$((sites+n)); args="$args -overlay $rel=$out"
    done
  done
  res=$(${LP2PCHECK:-bin/lp2pcheck} -repo ${REPO:-/repo} -tier quick -verif $tmp $args $prop 2>&1)
  bad=$(echo "$res" | grep -B1 '^VIOLATION' | grep -v '^VIOLATION\|^--' | cut -c1-330; echo "$res" | grep '^ERROR' | cut -c1-300)
  if [ -n "$bad" ]; then echo "== $prop $t ($sites sites): ALARM"; echo "$bad"; rc=1; else echo "== $prop $t ($sites sites): silent"; fi
  if [ $keep -eq 1 ]; then echo "   kept: $tmp"; else rm -rf $tmp; fi
done
exit $rc
