#!/bin/bash
# mut.sh <PROP> <repo-relative-file> <python-expr-on-s>   : self-test helper.
# Applies an in-memory edit (python: s = <expr>) to one file through the
# checker's overlay (nothing under /repo is touched) and runs the property.
set -u
. /verif/env.sh
prop=$1; file=$2; expr=$3
tmp=$(mktemp -d /tmp/lp2pmut.XXXXXX)
python3 - "$file" "$tmp/f.go" "$expr" <<'PY'
import sys
src=open('/repo/'+sys.argv[1]).read()
s=src
s=eval(sys.argv[3])
if s==src:
    print("MUTATION DID NOT APPLY"); sys.exit(3)
open(sys.argv[2],'w').write(s)
PY
rc=$?
if [ $rc -ne 0 ]; then rm -rf $tmp; exit $rc; fi
cp /verif/known_findings.json $tmp/; /verif/bin/lp2pcheck -tier ${4:-quick} -verif $tmp -overlay "$file=$tmp/f.go" $prop | grep -v "^  C\|^VIOLATION" | cut -c1-400
rc=${PIPESTATUS[0]}
rm -rf $tmp
echo "mut-exit=$rc"
