module mutsweep

go 1.26.0
