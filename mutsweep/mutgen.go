// mutgen: behaviour-CHANGING single-site mutants of one Go file, for measuring what the checker does not see
// (mutsweep.py). The counterpart of refmut (behaviour-preserving rewrites): every mutant here is a small edit of
// the kind a careless change makes -- a condition negated, a boundary moved by one, a check's body dropped, a
// statement lost, && for ||, true for false. Mutants are enumerated deterministically in source order.
//
//	mutgen -list file.go                 idx <TAB> kind <TAB> line <TAB> enclosing function <TAB> snippet
//	mutgen -apply idx file.go out.go     write the file with mutant idx applied
//
// Only the text between two token positions is replaced; the rest of the file is byte-identical, so line numbers
// in the checker's reports stay meaningful. Mutants that do not type-check are discarded by the caller (the
// checker's loader reports them).
package main

import (
	"flag"
	"fmt"
	"go/ast"
	"go/parser"
	"go/token"
	"os"
	"sort"
	"strings"
)

type mutant struct {
	kind       string
	start, end int // byte offsets
	repl       string
	line       int
	fn         string
}

func main() {
	list := flag.Bool("list", false, "list the mutants of the file")
	apply := flag.Int("apply", -1, "apply mutant idx")
	flag.Parse()
	if flag.NArg() < 1 {
		fmt.Fprintln(os.Stderr, "usage: mutgen -list file.go | mutgen -apply idx file.go out.go")
		os.Exit(2)
	}
	path := flag.Arg(0)
	src, err := os.ReadFile(path)
	if err != nil {
		fmt.Fprintln(os.Stderr, err)
		os.Exit(2)
	}
	ms := mutantsOf(path, src)
	if *list {
		for i, m := range ms {
			snip := strings.Join(strings.Fields(string(src[m.start:m.end])), " ")
			if len(snip) > 70 {
				snip = snip[:70]
			}
			fmt.Printf("%d\t%s\t%d\t%s\t%s\n", i, m.kind, m.line, m.fn, snip)
		}
		return
	}
	if *apply < 0 || *apply >= len(ms) || flag.NArg() < 2 {
		fmt.Fprintln(os.Stderr, "no such mutant")
		os.Exit(2)
	}
	m := ms[*apply]
	out := string(src[:m.start]) + m.repl + string(src[m.end:])
	if err := os.WriteFile(flag.Arg(1), []byte(out), 0o644); err != nil {
		fmt.Fprintln(os.Stderr, err)
		os.Exit(2)
	}
}

func mutantsOf(path string, src []byte) []mutant {
	fset := token.NewFileSet()
	f, err := parser.ParseFile(fset, path, src, parser.ParseComments)
	if err != nil {
		fmt.Fprintln(os.Stderr, err)
		os.Exit(2)
	}
	off := func(p token.Pos) int { return fset.Position(p).Offset }
	text := func(n ast.Node) string { return string(src[off(n.Pos()):off(n.End())]) }
	var ms []mutant
	for _, d := range f.Decls {
		fd, ok := d.(*ast.FuncDecl)
		if !ok || fd.Body == nil {
			continue
		}
		name := fd.Name.Name
		if fd.Recv != nil && len(fd.Recv.List) == 1 {
			t := fd.Recv.List[0].Type
			if s, ok := t.(*ast.StarExpr); ok {
				t = s.X
			}
			if ix, ok := t.(*ast.IndexExpr); ok {
				t = ix.X
			}
			if id, ok := t.(*ast.Ident); ok {
				name = id.Name + "." + name
			}
		}
		add := func(kind string, n ast.Node, repl string) {
			ms = append(ms, mutant{kind: kind, start: off(n.Pos()), end: off(n.End()), repl: repl, line: fset.Position(n.Pos()).Line, fn: name})
		}
		wholeCond := map[ast.Expr]bool{}
		ends := func(b *ast.BlockStmt) bool {
			if len(b.List) == 0 {
				return false
			}
			switch x := b.List[len(b.List)-1].(type) {
			case *ast.ReturnStmt, *ast.BranchStmt:
				return true
			case *ast.ExprStmt:
				if c, ok := x.X.(*ast.CallExpr); ok {
					if id, ok := c.Fun.(*ast.Ident); ok && id.Name == "panic" {
						return true
					}
				}
			}
			return false
		}
		ast.Inspect(fd.Body, func(n ast.Node) bool {
			switch x := n.(type) {
			case *ast.IfStmt:
				wholeCond[x.Cond] = true
				add("negcond", x.Cond, "!("+text(x.Cond)+")")
				if x.Else == nil && ends(x.Body) {
					// the check stays, what it decides is lost
					add("dropcheck", x.Body, "{}")
				}
			case *ast.ForStmt:
				if x.Cond != nil {
					wholeCond[x.Cond] = true
				}
			case *ast.BinaryExpr:
				var to string
				switch x.Op {
				case token.LSS:
					to = "<="
				case token.LEQ:
					to = "<"
				case token.GTR:
					to = ">="
				case token.GEQ:
					to = ">"
				case token.EQL:
					if !wholeCond[x] {
						to = "!="
					}
				case token.NEQ:
					if !wholeCond[x] {
						to = "=="
					}
				case token.LAND:
					to = "||"
				case token.LOR:
					to = "&&"
				case token.ADD:
					if isIntLit(x.Y) {
						to = "-"
					}
				case token.SUB:
					if isIntLit(x.Y) {
						to = "+"
					}
				}
				if to != "" {
					o := off(x.OpPos)
					kind := "relop"
					if x.Op == token.LAND || x.Op == token.LOR {
						kind = "logop"
					}
					if x.Op == token.ADD || x.Op == token.SUB {
						kind = "arith"
					}
					ms = append(ms, mutant{kind: kind, start: o, end: o + len(x.Op.String()), repl: to, line: fset.Position(x.OpPos).Line, fn: name})
				}
			case *ast.UnaryExpr:
				if x.Op == token.NOT && !wholeCondParen(x, wholeCond) {
					add("dropnot", x, text(x.X))
				}
			case *ast.ExprStmt:
				if c, ok := x.X.(*ast.CallExpr); ok {
					if id, ok := c.Fun.(*ast.Ident); ok && id.Name == "panic" {
						return true
					}
					if isLogCall(c) {
						return true
					}
					add("delcall", x, "")
				} else if u, ok := x.X.(*ast.UnaryExpr); ok && u.Op == token.ARROW {
					add("delrecv", x, "")
				}
			case *ast.AssignStmt:
				if x.Tok == token.ASSIGN && len(x.Lhs) == 1 {
					switch x.Lhs[0].(type) {
					case *ast.SelectorExpr, *ast.IndexExpr, *ast.StarExpr:
						add("delstore", x, "")
					case *ast.Ident:
						if x.Lhs[0].(*ast.Ident).Name != "_" {
							add("delassign", x, "")
						}
					}
				} else if x.Tok != token.DEFINE && x.Tok != token.ASSIGN && len(x.Lhs) == 1 {
					add("delstore", x, "") // x += y and the like
				}
			case *ast.IncDecStmt:
				add("delstore", x, "")
				if x.Tok == token.INC {
					ms = append(ms, mutant{kind: "incdec", start: off(x.TokPos), end: off(x.TokPos) + 2, repl: "--", line: fset.Position(x.TokPos).Line, fn: name})
				} else {
					ms = append(ms, mutant{kind: "incdec", start: off(x.TokPos), end: off(x.TokPos) + 2, repl: "++", line: fset.Position(x.TokPos).Line, fn: name})
				}
			case *ast.DeferStmt:
				add("deldefer", x, "")
			case *ast.GoStmt:
				add("delgo", x, "")
			case *ast.SendStmt:
				add("delsend", x, "")
			case *ast.BranchStmt:
				if x.Label == nil {
					switch x.Tok {
					case token.BREAK:
						add("branch", x, "continue")
					case token.CONTINUE:
						add("branch", x, "break")
					}
				}
			case *ast.Ident:
				if x.Name == "true" && x.Obj == nil {
					add("boolconst", x, "false")
				} else if x.Name == "false" && x.Obj == nil {
					add("boolconst", x, "true")
				}
			case *ast.ReturnStmt:
				// `return ..., err` with a non-nil-looking last result -> nil (the failure is swallowed)
				if k := len(x.Results); k >= 1 {
					if id, ok := x.Results[k-1].(*ast.Ident); ok && (id.Name == "err" || strings.HasSuffix(id.Name, "Err")) {
						add("nilerr", id, "nil")
					}
				}
			case *ast.SliceExpr:
				if x.Low != nil && isIntLit(x.Low) {
					add("slicelow", x.Low, bump(text(x.Low)))
				}
			}
			return true
		})
	}
	// in-loop-bodies' literals in case clauses, etc. are left alone; order by position, then kind
	sort.SliceStable(ms, func(i, j int) bool {
		if ms[i].start != ms[j].start {
			return ms[i].start < ms[j].start
		}
		return ms[i].kind < ms[j].kind
	})
	return ms
}

func wholeCondParen(x *ast.UnaryExpr, whole map[ast.Expr]bool) bool {
	// `if !c` negated by negcond already (=> `!(!c)`): dropping the ! is the same mutant
	return whole[x]
}

func isIntLit(e ast.Expr) bool {
	b, ok := e.(*ast.BasicLit)
	return ok && b.Kind == token.INT
}

func bump(s string) string {
	if s == "0" {
		return "1"
	}
	return "(" + s + "+1)"
}

func isLogCall(c *ast.CallExpr) bool {
	sel, ok := c.Fun.(*ast.SelectorExpr)
	if !ok {
		return false
	}
	switch sel.Sel.Name {
	case "Debug", "Debugf", "Debugw", "Info", "Infof", "Infow", "Warn", "Warnf", "Warnw", "Error", "Errorf", "Errorw", "Log", "Logf", "Printf", "Println":
		if id, ok := sel.X.(*ast.Ident); ok && (id.Name == "log" || id.Name == "logger" || id.Name == "fmt" || id.Name == "t") {
			return true
		}
		if s2, ok := sel.X.(*ast.SelectorExpr); ok && (s2.Sel.Name == "log" || s2.Sel.Name == "logger") {
			return true
		}
	}
	return false
}
