#!/usr/bin/env python3
"""mutsweep.py [-j N] [-repo DIR] [-bin lp2pcheck] [ID ...]

Sensitivity map of the checker: every single-site mutant (bin/mutgen) of every file a property is anchored in
(`anchors.files` of properties.jsonl) is handed to that property's check through -overlay (nothing under the
repository is touched) and classified

  invalid   the mutant does not type-check (discarded)
  killed    the property's check reports a VIOLATION (the rules are recorded)
  survived  the check stays silent

Results: mutsweep/results/<ID>.tsv (one line per mutant) and a per-function summary on stdout. A survivor is not
a defect of the checker by itself -- most statements of a file have nothing to do with the property -- it is the
list to read when looking for clauses no rule covers (DESIGN.md 12.6). This is a measurement of the checker, not
a deciding step of any check.
"""
import json, os, subprocess, sys, tempfile, shutil, re
from concurrent.futures import ThreadPoolExecutor

V = '/verif'
args = sys.argv[1:]
jobs, repo, binp = 12, '/repo', V + '/bin/lp2pcheck'
ids = []
while args:
    a = args.pop(0)
    if a == '-j': jobs = int(args.pop(0))
    elif a == '-repo': repo = args.pop(0)
    elif a == '-bin': binp = args.pop(0)
    else: ids.append(a)
env = dict(os.environ, GOFLAGS='-mod=mod', GOPROXY='off', GOSUMDB='off', GOTOOLCHAIN='local', CGO_ENABLED='0')
env['PATH'] = '/opt/veriftools/go1.26.8/bin:' + env['PATH']
env.pop('GOWORK', None)

if not os.path.exists(V + '/bin/mutgen'):
    subprocess.run(['go', 'build', '-o', V + '/bin/mutgen', '.'], cwd=V + '/mutsweep', env=env, check=True)
props = [json.loads(l) for l in open(V + '/properties.jsonl')]
os.makedirs(V + '/mutsweep/results', exist_ok=True)


def files_of(p):
    out = []
    for f in p['anchors']['files']:
        path = os.path.join(repo, f)
        if os.path.isdir(path):
            out += sorted(os.path.join(f, x) for x in os.listdir(path)
                          if x.endswith('.go') and not x.endswith('_test.go') and not x.endswith('.pb.go'))
        elif os.path.exists(path):
            out.append(f)
    return out


def run_one(task):
    pid, rel, idx, kind, line, fn, snip = task
    tmp = tempfile.mkdtemp(prefix='mutsweep.')
    try:
        shutil.copy(V + '/known_findings.json', tmp)
        out = os.path.join(tmp, os.path.basename(rel))
        subprocess.run([V + '/bin/mutgen', '-apply', str(idx), os.path.join(repo, rel), out], check=True)
        r = subprocess.run([binp, '-repo', repo, '-tier', 'quick', '-verif', tmp, '-overlay', rel + '=' + out, pid],
                           capture_output=True, text=True, env=env)
        txt = r.stdout + r.stderr
        if 'ERROR load' in txt:
            st, rules = 'invalid', ''
        elif 'VIOLATION' in txt:
            st = 'killed'
            rules = ' '.join(sorted(set(re.findall(r'\b(C\d\d-[RA]\d+)\b: ', txt))))
        elif re.search(r'^ERROR', txt, re.M) or r.returncode not in (0, 1):
            st, rules = 'error', txt.strip().splitlines()[-1][:200] if txt.strip() else ''
        else:
            st, rules = 'survived', ''
        return (pid, rel, idx, kind, line, fn, st, rules, snip)
    finally:
        shutil.rmtree(tmp, ignore_errors=True)


for p in props:
    pid = p['id']
    if ids and pid not in ids:
        continue
    tasks = []
    for rel in files_of(p):
        out = subprocess.run([V + '/bin/mutgen', '-list', os.path.join(repo, rel)], capture_output=True, text=True).stdout
        for l in out.splitlines():
            idx, kind, line, fn, snip = (l.split('\t') + [''])[:5]
            tasks.append((pid, rel, int(idx), kind, int(line), fn, snip))
    with ThreadPoolExecutor(max_workers=jobs) as ex:
        res = list(ex.map(run_one, tasks))
    with open(V + '/mutsweep/results/%s.tsv' % pid, 'w') as f:
        for r in res:
            f.write('\t'.join(str(x) for x in r) + '\n')
    valid = [r for r in res if r[6] != 'invalid']
    killed = [r for r in valid if r[6] == 'killed']
    errs = [r for r in valid if r[6] == 'error']
    print('%s mutants=%d valid=%d killed=%d survived=%d errors=%d' % (pid, len(res), len(valid), len(killed), len(valid) - len(killed) - len(errs), len(errs)), flush=True)
