#!/usr/bin/env python3
"""testfilter.py [-j N] [-repo DIR] ID ...

Second phase of the sensitivity map: every mutant that survived the checker (mutsweep/results/<ID>.tsv) is run
against the stable tests of the package it lives in (`go test -overlay`, nothing under the repository is touched;
the test names are those of /root/.vp/BASELINE.json). A mutant the tests also let through is exactly the kind of
change the checks are meant for -- provided it breaks the property, which only reading decides. Output:
mutsweep/results/<ID>.tests.tsv with the verdict `tests-pass` / `tests-kill` per survivor.
"""
import json, os, subprocess, sys, tempfile, shutil
from concurrent.futures import ThreadPoolExecutor

V = '/verif'
args = sys.argv[1:]
jobs, repo, ids, only, kinds = 6, '/repo', [], None, None
while args:
    a = args.pop(0)
    if a == '-j': jobs = int(args.pop(0))
    elif a == '-repo': repo = args.pop(0)
    elif a == '-only': only = args.pop(0).split(',')
    elif a == '-kinds': kinds = args.pop(0).split(',')
    else: ids.append(a)
env = dict(os.environ, GOFLAGS='-mod=mod', GOPROXY='off')  # (no GOSUMDB=off: the toolchain switch of the default go needs its checksum)
for k in ('GOWORK', 'GOSUMDB', 'GOTOOLCHAIN'):
    env.pop(k, None)
base = json.load(open('/root/.vp/BASELINE.json'))
MOD = 'github.com/libp2p/go-libp2p/'
tops = {}
import threading
lock = threading.Lock()
pkgtime = {}
for t in base['stable_pass']:
    pkg, name = t.split('::')[0], t.split('::')[1].split('/')[0]
    tops.setdefault(pkg, set()).add(name)


def run_one(task):
    pid, rel, idx = task[0], task[1], task[2]
    pkgdir = os.path.dirname(rel)
    names = tops.get(MOD + pkgdir)
    if not names:
        return task + ('no-tests',)
    tmp = tempfile.mkdtemp(prefix='muttest.')
    try:
        out = os.path.join(tmp, os.path.basename(rel))
        subprocess.run([V + '/bin/mutgen', '-apply', str(idx), os.path.join(repo, rel), out], check=True)
        ov = os.path.join(tmp, 'ov.json')
        json.dump({'Replace': {os.path.join(repo, rel): out}}, open(ov, 'w'))
        rx = '^(' + '|'.join(sorted(names)) + ')$'
        cmd = lambda extra, to: ['go', 'test'] + extra + ['-vet=off', '-count=1', '-timeout', '%ds' % to, '-run', rx, './' + pkgdir]
        # the package's own time on the unchanged tree bounds the wait: a mutant that deadlocks is killed after 3x
        with lock:
            if pkgdir not in pkgtime:
                import time
                t0 = time.time()
                subprocess.run(cmd([], 900), cwd=repo, capture_output=True, text=True, env=env)
                pkgtime[pkgdir] = time.time() - t0
        to = int(max(25, 3 * pkgtime[pkgdir] + 10))
        verdict = 'tests-kill'
        for attempt in range(2):
            try:
                r = subprocess.run(cmd(['-overlay=' + ov], to), cwd=repo, capture_output=True, text=True, env=env, timeout=to + 60)
            except subprocess.TimeoutExpired:
                verdict = 'tests-kill (timeout)'
                break
            if r.stdout.strip() == '' and r.stderr.startswith('go: '):
                verdict = 'error: ' + r.stderr.strip()[:120]
                break
            if r.returncode == 0:
                verdict = 'tests-pass'
                break
            if '[build failed]' in r.stdout + r.stderr or '[setup failed]' in r.stdout + r.stderr:
                verdict = 'build-failed'
                break
            if 'panic: test timed out' in r.stdout + r.stderr:
                verdict = 'tests-kill (timeout)'
                break
        return task + (verdict,)
    finally:
        shutil.rmtree(tmp, ignore_errors=True)


for pid in ids:
    tasks = []
    for l in open(V + '/mutsweep/results/%s.tsv' % pid):
        f = l.rstrip('\n').split('\t')
        if f[6] == 'survived' and (not only or any(o in f[1] or o in f[5] for o in only)) and (not kinds or f[3] in kinds):
            tasks.append((f[0], f[1], int(f[2]), f[3], f[4], f[5], f[8] if len(f) > 8 else ''))
    with ThreadPoolExecutor(max_workers=jobs) as ex:
        res = list(ex.map(run_one, tasks))
    with open(V + '/mutsweep/results/%s.tests.tsv' % pid, 'a') as f:
        for r in res:
            f.write('\t'.join(str(x) for x in r) + '\n')
    n = {}
    for r in res:
        n[r[-1]] = n.get(r[-1], 0) + 1
    print(pid, n, flush=True)
