#!/bin/bash
# precommit.sh "<message>" : run every claimed check on the unchanged /repo tree; commit only if all exit 0.
cd /verif
if [ -n "$(git -C /repo status --porcelain --untracked-files=no)" ]; then echo "/repo has local changes; refusing"; exit 2; fi
bad=0
for p in $(python3 -c "import json; print(' '.join(c['property_id'] for c in json.load(open('MANIFEST.json'))['checks']))"); do
  for tier in thorough quick; do
    out=$(./check $p $tier 2>&1); rc=$?
    if [ $rc -ne 0 ] || echo "$out" | grep -q '^VIOLATION\|^ERROR'; then echo "$p $tier FAILS on the unchanged tree (exit $rc)"; echo "$out" | grep -v '^  C' | head -5 | cut -c1-300; bad=1; fi
  done
done
[ $bad -eq 0 ] || { echo "NOT committed"; exit 1; }
python3 gen_manifest.py >/dev/null && python3-vt validate.py | grep -v '^evidence ok\|^manifest ok'
git add -A && git commit -qm "$1" && echo "committed: $1"
