module refmut

go 1.26.0

require golang.org/x/tools v0.50.0

require (
	golang.org/x/mod v0.41.0 // indirect
	golang.org/x/sync v0.23.0 // indirect
)
