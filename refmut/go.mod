module refmut

go 1.24
