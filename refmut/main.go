// refmut: behaviour-preserving source transformations, applied at EVERY applicable site of a Go file.
// Used by /verif/metamorph.sh to test that the checker's rules do not depend on how a condition is spelled:
// the transformed file is handed to lp2pcheck through -overlay (nothing under /repo is touched) and every
// check must stay silent.
//
//	refmut -t <transform> [-n k] in.go out.go      (k >= 0: only the k-th applicable site; default all)
//	refmut -list
//
// Transforms (each preserves behaviour for every input; sites where that is not evident are skipped):
//
//	swapcmp   a OP b  ->  b OP' a for ==, !=, <, <=, >, >= when both operands are free of calls (len/cap allowed),
//	          receives and index/deref that could panic in a different order
//	splitand  if A && B { S }   ->  if A { if B { S } }           (no init, no else)
//	negif     if C { A } else { B }  ->  if !C { B } else { A }   (B a block, not an else-if)
//	hoistcond if C { .. }  ->  zzcN := C; if zzcN { .. }           (no init; C not a bare identifier/literal; not in else-if)
//	earlyret  if C { A } else { B } where A ends in return/continue/break/panic  ->  if C { A }; B
//	          (only when the if is the last statement using no declarations of B's scope clash: B's statements are
//	          wrapped in a block when they declare names)
//	demorgan  !(A) for A && / ||: if A || B {..} -> if !(!A && !B) {..}   (pure boolean rewrite)
//	gecmp     a >= b -> !(a < b), a <= b -> !(a > b), a > b -> !(a <= b), a < b -> !(a >= b) for integer-looking
//	          operands (no float NaN issue: skipped when an operand is a float literal or named like a float)
package main

import (
	"bytes"
	"flag"
	"fmt"
	"go/ast"
	"go/format"
	"go/parser"
	"go/token"
	"os"
	"sort"
)

var only = flag.Int("n", -1, "apply only at the k-th applicable site")
var tname = flag.String("t", "", "transform")
var list = flag.Bool("list", false, "list transforms")
var rootDir = flag.String("root", "", "typed transforms: module root")
var pkgDir = flag.String("dir", "", "typed transforms: package directory relative to the root")
var outDir = flag.String("out", "", "typed transforms: output directory")

var counter int

func pure(e ast.Expr) bool {
	ok := true
	ast.Inspect(e, func(n ast.Node) bool {
		switch x := n.(type) {
		case *ast.CallExpr:
			if id, isId := x.Fun.(*ast.Ident); isId && (id.Name == "len" || id.Name == "cap") {
				return true
			}
			ok = false
		case *ast.UnaryExpr:
			if x.Op == token.ARROW {
				ok = false
			}
		case *ast.IndexExpr, *ast.StarExpr, *ast.SliceExpr, *ast.TypeAssertExpr, *ast.FuncLit:
			ok = false
		case *ast.BinaryExpr:
			if x.Op == token.QUO || x.Op == token.REM {
				ok = false
			}
		}
		return ok
	})
	return ok
}

func flip(op token.Token) (token.Token, bool) {
	switch op {
	case token.EQL, token.NEQ:
		return op, true
	case token.LSS:
		return token.GTR, true
	case token.GTR:
		return token.LSS, true
	case token.LEQ:
		return token.GEQ, true
	case token.GEQ:
		return token.LEQ, true
	}
	return op, false
}

func negOp(op token.Token) (token.Token, bool) {
	switch op {
	case token.GEQ:
		return token.LSS, true
	case token.LEQ:
		return token.GTR, true
	case token.GTR:
		return token.LEQ, true
	case token.LSS:
		return token.GEQ, true
	}
	return op, false
}

func floaty(e ast.Expr) bool {
	f := false
	ast.Inspect(e, func(n ast.Node) bool {
		switch x := n.(type) {
		case *ast.BasicLit:
			if x.Kind == token.FLOAT {
				f = true
			}
		case *ast.Ident:
			for _, s := range []string{"float", "Float", "frac", "Frac", "ratio", "Ratio", "score", "Score", "decay", "Decay", "weight", "Weight"} {
				if bytes.Contains([]byte(x.Name), []byte(s)) {
					f = true
				}
			}
		}
		return true
	})
	return f
}

func not(e ast.Expr) ast.Expr {
	if u, ok := e.(*ast.UnaryExpr); ok && u.Op == token.NOT {
		if p, ok := u.X.(*ast.ParenExpr); ok {
			return p.X
		}
		return u.X
	}
	switch e.(type) {
	case *ast.Ident, *ast.CallExpr, *ast.SelectorExpr, *ast.ParenExpr:
		return &ast.UnaryExpr{Op: token.NOT, X: e}
	}
	return &ast.UnaryExpr{Op: token.NOT, X: &ast.ParenExpr{X: e}}
}

func endsInJump(b *ast.BlockStmt) bool {
	if len(b.List) == 0 {
		return false
	}
	switch x := b.List[len(b.List)-1].(type) {
	case *ast.ReturnStmt:
		return true
	case *ast.BranchStmt:
		return x.Tok == token.CONTINUE || x.Tok == token.BREAK || x.Tok == token.GOTO
	case *ast.ExprStmt:
		if c, ok := x.X.(*ast.CallExpr); ok {
			if id, ok := c.Fun.(*ast.Ident); ok && id.Name == "panic" {
				return true
			}
		}
	}
	return false
}

func declares(b *ast.BlockStmt) bool {
	for _, s := range b.List {
		switch x := s.(type) {
		case *ast.DeclStmt:
			return true
		case *ast.AssignStmt:
			if x.Tok == token.DEFINE {
				return true
			}
		case *ast.LabeledStmt:
			return true
		}
	}
	return false
}

// hasBareBreak: the statements contain an unlabeled break that would bind to an enclosing switch/for (not one nested
// in an inner for / switch / select of their own).
func hasBareBreak(list []ast.Stmt) bool {
	found := false
	var walk func(n ast.Node, depth int)
	walk = func(n ast.Node, depth int) {
		ast.Inspect(n, func(m ast.Node) bool {
			if m == nil || found {
				return false
			}
			switch x := m.(type) {
			case *ast.ForStmt, *ast.RangeStmt, *ast.SwitchStmt, *ast.TypeSwitchStmt, *ast.SelectStmt:
				if m != n {
					return false // a break inside binds to it
				}
			case *ast.FuncLit:
				return false
			case *ast.BranchStmt:
				if x.Tok == token.BREAK && x.Label == nil {
					found = true
				}
			}
			return true
		})
	}
	for _, s := range list {
		walk(s, 0)
	}
	return found
}

func hasFallthrough(list []ast.Stmt) bool {
	for _, s := range list {
		if b, ok := s.(*ast.BranchStmt); ok && b.Tok == token.FALLTHROUGH {
			return true
		}
	}
	return false
}

func simpleTag(e ast.Expr) bool {
	switch x := e.(type) {
	case *ast.Ident:
		return true
	case *ast.SelectorExpr:
		return simpleTag(x.X)
	}
	return false
}

// site counting: want(k) says whether the k-th applicable site is to be rewritten
func want() bool {
	k := counter
	counter++
	return *only < 0 || *only == k
}

// rewriteStmtLists walks every statement list and lets fn replace statement i by a list.
func rewriteStmtLists(f *ast.File, fn func(list []ast.Stmt, i int, elseIf map[*ast.IfStmt]bool) []ast.Stmt) {
	elseIf := map[*ast.IfStmt]bool{}
	ast.Inspect(f, func(n ast.Node) bool {
		if i, ok := n.(*ast.IfStmt); ok {
			if e, ok := i.Else.(*ast.IfStmt); ok {
				elseIf[e] = true
			}
		}
		return true
	})
	var doList func(list []ast.Stmt) []ast.Stmt
	doList = func(list []ast.Stmt) []ast.Stmt {
		var out []ast.Stmt
		for i := range list {
			r := fn(list, i, elseIf)
			if r == nil {
				out = append(out, list[i])
			} else {
				out = append(out, r...)
			}
		}
		return out
	}
	ast.Inspect(f, func(n ast.Node) bool {
		switch x := n.(type) {
		case *ast.BlockStmt:
			x.List = doList(x.List)
		case *ast.CaseClause:
			x.Body = doList(x.Body)
		case *ast.CommClause:
			x.Body = doList(x.Body)
		}
		return true
	})
}

var transforms = map[string]func(f *ast.File){
	"swapcmp": func(f *ast.File) {
		ast.Inspect(f, func(n ast.Node) bool {
			b, ok := n.(*ast.BinaryExpr)
			if !ok {
				return true
			}
			op, ok := flip(b.Op)
			if !ok || !pure(b.X) || !pure(b.Y) {
				return true
			}
			// keep `x == nil` style literal comparisons too: swapping is legal Go
			if want() {
				b.X, b.Y, b.Op = b.Y, b.X, op
			}
			return true
		})
	},
	"gecmp": func(f *ast.File) {
		var visit func(e *ast.Expr)
		rewrite := func(e *ast.Expr) {
			b, ok := (*e).(*ast.BinaryExpr)
			if !ok {
				return
			}
			op, ok := negOp(b.Op)
			if !ok || floaty(b.X) || floaty(b.Y) {
				return
			}
			if want() {
				*e = &ast.UnaryExpr{Op: token.NOT, X: &ast.ParenExpr{X: &ast.BinaryExpr{X: b.X, Op: op, Y: b.Y}}}
			}
		}
		_ = visit
		ast.Inspect(f, func(n ast.Node) bool {
			switch x := n.(type) {
			case *ast.IfStmt:
				rewrite(&x.Cond)
			case *ast.BinaryExpr:
				if x.Op == token.LAND || x.Op == token.LOR {
					rewrite(&x.X)
					rewrite(&x.Y)
				}
			case *ast.ForStmt:
				if x.Cond != nil {
					rewrite(&x.Cond)
				}
			}
			return true
		})
	},
	"splitand": func(f *ast.File) {
		ast.Inspect(f, func(n ast.Node) bool {
			i, ok := n.(*ast.IfStmt)
			if !ok || i.Init != nil || i.Else != nil {
				return true
			}
			b, ok := i.Cond.(*ast.BinaryExpr)
			if !ok || b.Op != token.LAND {
				return true
			}
			if want() {
				inner := &ast.IfStmt{Cond: b.Y, Body: i.Body}
				i.Cond = b.X
				i.Body = &ast.BlockStmt{List: []ast.Stmt{inner}}
			}
			return true
		})
	},
	"negif": func(f *ast.File) {
		ast.Inspect(f, func(n ast.Node) bool {
			i, ok := n.(*ast.IfStmt)
			if !ok || i.Else == nil {
				return true
			}
			eb, ok := i.Else.(*ast.BlockStmt)
			if !ok {
				return true
			}
			if want() {
				i.Cond = not(i.Cond)
				i.Body, i.Else = eb, i.Body
			}
			return true
		})
	},
	"demorgan": func(f *ast.File) {
		ast.Inspect(f, func(n ast.Node) bool {
			i, ok := n.(*ast.IfStmt)
			if !ok {
				return true
			}
			b, ok := i.Cond.(*ast.BinaryExpr)
			if !ok || (b.Op != token.LAND && b.Op != token.LOR) {
				return true
			}
			if want() {
				op := token.LAND
				if b.Op == token.LAND {
					op = token.LOR
				}
				i.Cond = &ast.UnaryExpr{Op: token.NOT, X: &ast.ParenExpr{X: &ast.BinaryExpr{X: not(b.X), Op: op, Y: not(b.Y)}}}
			}
			return true
		})
	},
	// switch2if: a switch without init, fallthrough or bare break becomes an if / else-if chain. A tagged switch needs a
	// side-effect free tag (identifier or selector); `case a, b:` becomes `tag == a || tag == b`.
	"switch2if": func(f *ast.File) {
		rewriteStmtLists(f, func(list []ast.Stmt, k int, elseIf map[*ast.IfStmt]bool) []ast.Stmt {
			sw, ok := list[k].(*ast.SwitchStmt)
			if !ok || sw.Init != nil || len(sw.Body.List) == 0 {
				return nil
			}
			if sw.Tag != nil && !simpleTag(sw.Tag) {
				return nil
			}
			var def *ast.CaseClause
			var cases []*ast.CaseClause
			for _, c := range sw.Body.List {
				cc := c.(*ast.CaseClause)
				if hasFallthrough(cc.Body) || hasBareBreak(cc.Body) {
					return nil
				}
				if cc.List == nil {
					def = cc
					if cc != sw.Body.List[len(sw.Body.List)-1] {
						return nil // a default in the middle: keep it simple
					}
				} else {
					cases = append(cases, cc)
				}
			}
			if len(cases) == 0 {
				return nil
			}
			if !want() {
				return nil
			}
			cond := func(cc *ast.CaseClause) ast.Expr {
				var e ast.Expr
				for _, v := range cc.List {
					var t ast.Expr = v
					if sw.Tag != nil {
						t = &ast.BinaryExpr{X: sw.Tag, Op: token.EQL, Y: v}
					} else if _, isBin := v.(*ast.BinaryExpr); isBin && len(cc.List) > 1 {
						t = &ast.ParenExpr{X: v}
					}
					if e == nil {
						e = t
					} else {
						e = &ast.BinaryExpr{X: e, Op: token.LOR, Y: t}
					}
				}
				return e
			}
			var first, cur *ast.IfStmt
			for _, cc := range cases {
				n := &ast.IfStmt{Cond: cond(cc), Body: &ast.BlockStmt{List: cc.Body}}
				if first == nil {
					first = n
				} else {
					cur.Else = n
				}
				cur = n
			}
			if def != nil {
				cur.Else = &ast.BlockStmt{List: def.Body}
			}
			return []ast.Stmt{first}
		})
	},
	// if2switch: an if / else-if chain (no init statements, no bare break in the bodies) becomes a tagless switch.
	"if2switch": func(f *ast.File) {
		rewriteStmtLists(f, func(list []ast.Stmt, k int, elseIf map[*ast.IfStmt]bool) []ast.Stmt {
			i, ok := list[k].(*ast.IfStmt)
			if !ok || elseIf[i] || i.Else == nil {
				return nil
			}
			var clauses []ast.Stmt
			n := 0
			for cur := i; cur != nil; {
				if cur.Init != nil || hasBareBreak(cur.Body.List) {
					return nil
				}
				clauses = append(clauses, &ast.CaseClause{List: []ast.Expr{cur.Cond}, Body: cur.Body.List})
				n++
				switch e := cur.Else.(type) {
				case *ast.IfStmt:
					cur = e
				case *ast.BlockStmt:
					if hasBareBreak(e.List) {
						return nil
					}
					clauses = append(clauses, &ast.CaseClause{Body: e.List})
					cur = nil
				default:
					cur = nil
				}
			}
			if n < 2 {
				return nil
			}
			if !want() {
				return nil
			}
			return []ast.Stmt{&ast.SwitchStmt{Body: &ast.BlockStmt{List: clauses}}}
		})
	},
	// mergeand: if A { if B { S } }  ->  if A && B { S }   (no init, no else on either; the inner if is the only statement)
	"mergeand": func(f *ast.File) {
		ast.Inspect(f, func(n ast.Node) bool {
			i, ok := n.(*ast.IfStmt)
			if !ok || i.Init != nil || i.Else != nil || len(i.Body.List) != 1 {
				return true
			}
			in, ok := i.Body.List[0].(*ast.IfStmt)
			if !ok || in.Init != nil || in.Else != nil {
				return true
			}
			if want() {
				par := func(e ast.Expr) ast.Expr {
					if b, isB := e.(*ast.BinaryExpr); isB && b.Op == token.LOR {
						return &ast.ParenExpr{X: e}
					}
					return e
				}
				i.Cond = &ast.BinaryExpr{X: par(i.Cond), Op: token.LAND, Y: par(in.Cond)}
				i.Body = in.Body
			}
			return true
		})
	},
	// initblock: if INIT; C {..} [else {..}]  ->  { INIT; if C {..} [else {..}] }   (not an else-if itself)
	"initblock": func(f *ast.File) {
		rewriteStmtLists(f, func(list []ast.Stmt, k int, elseIf map[*ast.IfStmt]bool) []ast.Stmt {
			i, ok := list[k].(*ast.IfStmt)
			if !ok || i.Init == nil || elseIf[i] {
				return nil
			}
			if !want() {
				return nil
			}
			init := i.Init
			i.Init = nil
			return []ast.Stmt{&ast.BlockStmt{List: []ast.Stmt{init, i}}}
		})
	},
	"hoistcond": func(f *ast.File) {
		rewriteStmtLists(f, func(list []ast.Stmt, k int, elseIf map[*ast.IfStmt]bool) []ast.Stmt {
			i, ok := list[k].(*ast.IfStmt)
			if !ok || i.Init != nil || elseIf[i] {
				return nil
			}
			switch i.Cond.(type) {
			case *ast.Ident, *ast.BasicLit:
				return nil
			}
			if !want() {
				return nil
			}
			name := fmt.Sprintf("zzc%d", counter)
			as := &ast.AssignStmt{Lhs: []ast.Expr{ast.NewIdent(name)}, Tok: token.DEFINE, Rhs: []ast.Expr{i.Cond}}
			i.Cond = ast.NewIdent(name)
			return []ast.Stmt{as, i}
		})
	},
	// condclosure: the condition of an if moves into a local predicate closure called in its place. Every variable the
	// condition reads becomes a captured variable (a by-reference cell in SSA when it is assigned elsewhere).
	"condclosure": func(f *ast.File) {
		rewriteStmtLists(f, func(list []ast.Stmt, k int, elseIf map[*ast.IfStmt]bool) []ast.Stmt {
			i, ok := list[k].(*ast.IfStmt)
			if !ok || i.Init != nil || elseIf[i] {
				return nil
			}
			switch i.Cond.(type) {
			case *ast.Ident, *ast.BasicLit:
				return nil
			}
			if !want() {
				return nil
			}
			name := fmt.Sprintf("zzf%d", counter)
			lit := &ast.FuncLit{
				Type: &ast.FuncType{Params: &ast.FieldList{}, Results: &ast.FieldList{List: []*ast.Field{{Type: ast.NewIdent("bool")}}}},
				Body: &ast.BlockStmt{List: []ast.Stmt{&ast.ReturnStmt{Results: []ast.Expr{i.Cond}}}},
			}
			as := &ast.AssignStmt{Lhs: []ast.Expr{ast.NewIdent(name)}, Tok: token.DEFINE, Rhs: []ast.Expr{lit}}
			i.Cond = &ast.CallExpr{Fun: ast.NewIdent(name)}
			return []ast.Stmt{as, i}
		})
	},
	"earlyret": func(f *ast.File) {
		rewriteStmtLists(f, func(list []ast.Stmt, k int, elseIf map[*ast.IfStmt]bool) []ast.Stmt {
			i, ok := list[k].(*ast.IfStmt)
			if !ok || i.Else == nil || elseIf[i] {
				return nil
			}
			eb, ok := i.Else.(*ast.BlockStmt)
			if !ok || !endsInJump(i.Body) {
				return nil
			}
			if i.Init != nil {
				return nil // names of the init are in scope in the else block only through the if
			}
			if !want() {
				return nil
			}
			i.Else = nil
			if declares(eb) {
				return []ast.Stmt{i, eb}
			}
			return append([]ast.Stmt{i}, eb.List...)
		})
	},
}

func main() {
	flag.Parse()
	if *list {
		var ns []string
		for n := range transforms {
			ns = append(ns, n)
		}
		for n := range typedTransforms {
			ns = append(ns, n+" (typed)")
		}
		sort.Strings(ns)
		for _, n := range ns {
			fmt.Println(n)
		}
		return
	}
	if _, typed := typedTransforms[*tname]; typed {
		if *rootDir == "" || *pkgDir == "" || *outDir == "" {
			fmt.Fprintln(os.Stderr, "usage: refmut -t <typed transform> -root <module root> -dir <package dir> -out <dir>")
			os.Exit(2)
		}
		runTyped(*tname, *rootDir, *pkgDir, *outDir)
		return
	}
	t, ok := transforms[*tname]
	if !ok || flag.NArg() != 2 {
		fmt.Fprintln(os.Stderr, "usage: refmut -t <transform> [-n k] in.go out.go")
		os.Exit(2)
	}
	fset := token.NewFileSet()
	f, err := parser.ParseFile(fset, flag.Arg(0), nil, parser.ParseComments)
	if err != nil {
		fmt.Fprintln(os.Stderr, err)
		os.Exit(2)
	}
	// drop comment positions inside function bodies: rewritten statements would otherwise attract stray comments
	// (build constraints before the package clause and //go: directives are kept)
	var keep []*ast.CommentGroup
	for _, cg := range f.Comments {
		k := cg.Pos() < f.Package
		for _, c := range cg.List {
			if len(c.Text) > 5 && (c.Text[:5] == "//go:" || (len(c.Text) > 9 && c.Text[:9] == "// +build")) {
				k = true
			}
		}
		if k {
			keep = append(keep, cg)
		}
	}
	f.Comments = keep
	t(f)
	var buf bytes.Buffer
	if err := format.Node(&buf, fset, f); err != nil {
		fmt.Fprintln(os.Stderr, err)
		os.Exit(2)
	}
	if err := os.WriteFile(flag.Arg(1), buf.Bytes(), 0o644); err != nil {
		fmt.Fprintln(os.Stderr, err)
		os.Exit(2)
	}
	fmt.Println(counter) // applicable sites
}
