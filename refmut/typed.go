package main

// typed.go — transforms that need type information. They work on a whole package:
//
//	refmut -t <transform> -root <module root> -dir <package dir relative to root> -out <dir>
//
// writes the rewritten non-test files that changed to <dir>/<file name> and prints "<file name> <sites>" per file.
//
//	rangeidx      for k, v := range X { B }  (X a slice or an array)  ->
//	              { zzr := X; for zzi := 0; zzi < len(zzr); zzi++ { k := zzi; v := zzr[zzi]; B } }
//	              (range evaluates X once and reads each element when its iteration starts: so does the rewrite)
//	extracthelper if C { .. }  ->  if zzhN(locals of C...) { .. }  with  func zzhN(locals...) bool { return C }  appended
//	              to the file (C without function literals, address-of, recover; its local variables of pointer,
//	              interface, basic, slice, map, chan, func or named non-struct type, nameable in this file)

import (
	"bytes"
	"fmt"
	"go/ast"
	"go/format"
	"go/token"
	"go/types"
	"os"
	"path/filepath"
	"sort"
	"strings"

	"golang.org/x/tools/go/packages"
)

type typedCtx struct {
	fset *token.FileSet
	pkg  *types.Package
	info *types.Info
	file *ast.File
	// helper declarations to append
	extra []string
}

var typedTransforms = map[string]func(tc *typedCtx){
	// renamelocals: every local variable, parameter, receiver and named result x becomes xZz (consistently: all
	// identifiers that resolve to the same object). Exported API is untouched: parameter names are not part of it.
	"renamelocals": func(tc *typedCtx) {
		local := func(obj types.Object) bool {
			v, ok := obj.(*types.Var)
			if !ok || v.IsField() || v.Pkg() != tc.pkg || v.Name() == "_" || v.Name() == "" {
				return false
			}
			return v.Parent() != nil && v.Parent() != tc.pkg.Scope() && v.Parent() != types.Universe
		}
		renamed := map[types.Object]bool{}
		var idents []*ast.Ident
		// the symbolic variable of a type switch has no object of its own: one implicit object per clause
		tsNames := map[*ast.Ident]bool{}
		ast.Inspect(tc.file, func(n ast.Node) bool {
			ts, ok := n.(*ast.TypeSwitchStmt)
			if !ok {
				return true
			}
			if as, isAs := ts.Assign.(*ast.AssignStmt); isAs && len(as.Lhs) == 1 {
				if id, isId := as.Lhs[0].(*ast.Ident); isId && id.Name != "_" {
					used := false
					for _, cl := range ts.Body.List {
						if obj := tc.info.Implicits[cl]; obj != nil {
							renamed[obj] = true
							used = true
						}
					}
					if used {
						tsNames[id] = true
					}
				}
			}
			return true
		})
		ast.Inspect(tc.file, func(n ast.Node) bool {
			id, ok := n.(*ast.Ident)
			if !ok {
				return true
			}
			if tsNames[id] {
				idents = append(idents, id)
				return true
			}
			obj := tc.info.Defs[id]
			if obj == nil {
				obj = tc.info.Uses[id]
			}
			if obj == nil {
				return true
			}
			if renamed[obj] || local(obj) {
				if !renamed[obj] {
					renamed[obj] = true
					want()
				}
				idents = append(idents, id)
			}
			return true
		})
		// struct literal keys and selector fields are fields, not variables: never in idents. Embedded-field
		// promotion through a renamed variable keeps working (the field names do not change).
		for _, id := range idents {
			id.Name = id.Name + "Zz"
		}
	},
	"rangeidx": func(tc *typedCtx) {
		rewriteStmtLists(tc.file, func(list []ast.Stmt, k int, elseIf map[*ast.IfStmt]bool) []ast.Stmt {
			rs, ok := list[k].(*ast.RangeStmt)
			if !ok {
				return nil
			}
			t := tc.info.TypeOf(rs.X)
			if t == nil {
				return nil
			}
			switch t.Underlying().(type) {
			case *types.Slice, *types.Array:
			default:
				return nil
			}
			if !want() {
				return nil
			}
			n := counter
			zr, zi := ast.NewIdent(fmt.Sprintf("zzr%d", n)), ast.NewIdent(fmt.Sprintf("zzi%d", n))
			var pre []ast.Stmt
			bind := func(lhs ast.Expr, rhs ast.Expr) {
				if lhs == nil {
					return
				}
				if id, isId := lhs.(*ast.Ident); isId && id.Name == "_" {
					return
				}
				pre = append(pre, &ast.AssignStmt{Lhs: []ast.Expr{lhs}, Tok: rs.Tok, Rhs: []ast.Expr{rhs}})
				if rs.Tok == token.DEFINE {
					// (a variable the body does not use would not compile)
					pre = append(pre, &ast.AssignStmt{Lhs: []ast.Expr{ast.NewIdent("_")}, Tok: token.ASSIGN, Rhs: []ast.Expr{lhs}})
				}
			}
			bind(rs.Key, zi)
			bind(rs.Value, &ast.IndexExpr{X: zr, Index: zi})
			body := &ast.BlockStmt{List: append(pre, rs.Body.List...)}
			loop := &ast.ForStmt{
				Init: &ast.AssignStmt{Lhs: []ast.Expr{zi}, Tok: token.DEFINE, Rhs: []ast.Expr{&ast.BasicLit{Kind: token.INT, Value: "0"}}},
				Cond: &ast.BinaryExpr{X: zi, Op: token.LSS, Y: &ast.CallExpr{Fun: ast.NewIdent("len"), Args: []ast.Expr{zr}}},
				Post: &ast.IncDecStmt{X: zi, Tok: token.INC},
				Body: body,
			}
			return []ast.Stmt{&ast.BlockStmt{List: []ast.Stmt{
				&ast.AssignStmt{Lhs: []ast.Expr{zr}, Tok: token.DEFINE, Rhs: []ast.Expr{rs.X}},
				loop,
			}}}
		})
	},
	"extracthelper": func(tc *typedCtx) {
		imports := map[string]string{} // package path -> name in this file
		for _, im := range tc.file.Imports {
			path := strings.Trim(im.Path.Value, "\"")
			name := ""
			if im.Name != nil {
				name = im.Name.Name
			}
			imports[path] = name
		}
		pkgName := func(p *types.Package) (string, bool) {
			if p == tc.pkg {
				return "", true
			}
			n, ok := imports[p.Path()]
			if !ok || n == "_" || n == "." {
				return "", false
			}
			if n == "" {
				n = p.Name()
			}
			return n, true
		}
		// typeString: t spelled in this file, or false
		var nameable func(t types.Type, depth int) bool
		nameable = func(t types.Type, depth int) bool {
			if depth > 6 {
				return false
			}
			switch x := t.(type) {
			case *types.Basic:
				return x.Kind() != types.UntypedNil && x.Kind() != types.Invalid && (x.Info()&types.IsUntyped) == 0
			case *types.Named:
				if x.TypeArgs().Len() > 0 {
					return false
				}
				o := x.Obj()
				if o.Pkg() == nil {
					return true // error
				}
				if o.Parent() != o.Pkg().Scope() {
					return false // a type declared inside a function
				}
				if _, ok := pkgName(o.Pkg()); !ok {
					return false
				}
				return o.Pkg() == tc.pkg || o.Exported()
			case *types.Alias:
				return nameable(types.Unalias(x), depth+1)
			case *types.Pointer:
				return nameable(x.Elem(), depth+1)
			case *types.Slice:
				return nameable(x.Elem(), depth+1)
			case *types.Array:
				return nameable(x.Elem(), depth+1)
			case *types.Map:
				return nameable(x.Key(), depth+1) && nameable(x.Elem(), depth+1)
			case *types.Chan:
				return nameable(x.Elem(), depth+1)
			case *types.Interface:
				return x.NumMethods() == 0 && x.NumEmbeddeds() == 0 // any
			case *types.Signature:
				if x.TypeParams().Len() > 0 || x.Recv() != nil {
					return false
				}
				for i := 0; i < x.Params().Len(); i++ {
					if !nameable(x.Params().At(i).Type(), depth+1) {
						return false
					}
				}
				for i := 0; i < x.Results().Len(); i++ {
					if !nameable(x.Results().At(i).Type(), depth+1) {
						return false
					}
				}
				return true
			}
			return false
		}
		passable := func(t types.Type) bool {
			if !nameable(t, 0) {
				return false
			}
			switch t.Underlying().(type) {
			case *types.Struct, *types.Array:
				return false // a copy: methods with pointer receivers would act on the copy
			}
			return true
		}
		qual := func(p *types.Package) string {
			n, _ := pkgName(p)
			return n
		}
		generic := map[*ast.FuncDecl]bool{}
		for _, d := range tc.file.Decls {
			if fd, ok := d.(*ast.FuncDecl); ok {
				if fd.Type.TypeParams != nil {
					generic[fd] = true
				}
				if fd.Recv != nil {
					for _, f := range fd.Recv.List {
						t := tc.info.TypeOf(f.Type)
						if p, isP := t.(*types.Pointer); isP {
							t = p.Elem()
						}
						if n, isN := t.(*types.Named); isN && n.TypeParams().Len() > 0 {
							generic[fd] = true
						}
					}
				}
			}
		}
		for _, d := range tc.file.Decls {
			fd, ok := d.(*ast.FuncDecl)
			if !ok || fd.Body == nil || generic[fd] {
				continue
			}
			rewriteStmtListsIn(fd.Body, func(list []ast.Stmt, k int, elseIf map[*ast.IfStmt]bool) []ast.Stmt {
				i, ok := list[k].(*ast.IfStmt)
				if !ok || i.Init != nil || elseIf[i] {
					return nil
				}
				switch i.Cond.(type) {
				case *ast.Ident, *ast.BasicLit:
					return nil
				}
				okC := true
				var params []*types.Var
				seen := map[*types.Var]bool{}
				ast.Inspect(i.Cond, func(n ast.Node) bool {
					switch x := n.(type) {
					case *ast.FuncLit:
						okC = false
					case *ast.UnaryExpr:
						if x.Op == token.AND {
							okC = false
						}
					case *ast.Ident:
						if x.Name == "recover" {
							okC = false
						}
						obj := tc.info.Uses[x]
						if obj == nil {
							if tc.info.Defs[x] != nil {
								okC = false
							}
							return true
						}
						if obj.Pkg() == nil || obj.Parent() == nil || obj.Parent() == obj.Pkg().Scope() || obj.Parent() == types.Universe {
							return true // universe, package level, or a field / method (no parent scope)
						}
						v, isVar := obj.(*types.Var)
						if !isVar || v.IsField() {
							okC = false // a local constant, type or label
							return true
						}
						if !passable(v.Type()) || v.Name() == "_" {
							okC = false
							return true
						}
						if !seen[v] {
							seen[v] = true
							params = append(params, v)
						}
					}
					return okC
				})
				if !okC {
					return nil
				}
				// two different variables with one name cannot both be parameters
				names := map[string]bool{}
				for _, p := range params {
					if names[p.Name()] {
						return nil
					}
					names[p.Name()] = true
				}
				if !want() {
					return nil
				}
				name := fmt.Sprintf("zzh%d", counter)
				var ps, args []string
				var argx []ast.Expr
				for _, p := range params {
					ps = append(ps, p.Name()+" "+types.TypeString(p.Type(), qual))
					args = append(args, p.Name())
					argx = append(argx, ast.NewIdent(p.Name()))
				}
				var cb bytes.Buffer
				format.Node(&cb, tc.fset, i.Cond)
				tc.extra = append(tc.extra, fmt.Sprintf("func %s(%s) bool {\n\treturn %s\n}\n", name, strings.Join(ps, ", "), cb.String()))
				i.Cond = &ast.CallExpr{Fun: ast.NewIdent(name), Args: argx}
				return []ast.Stmt{i}
			})
		}
	},
}

// rewriteStmtListsIn: rewriteStmtLists restricted to one body.
func rewriteStmtListsIn(body *ast.BlockStmt, fn func(list []ast.Stmt, i int, elseIf map[*ast.IfStmt]bool) []ast.Stmt) {
	f := &ast.File{Decls: []ast.Decl{&ast.FuncDecl{Name: ast.NewIdent("x"), Type: &ast.FuncType{}, Body: body}}}
	rewriteStmtLists(f, fn)
}

func runTyped(name, root, dir, out string) {
	t := typedTransforms[name]
	cfg := &packages.Config{Mode: packages.NeedName | packages.NeedFiles | packages.NeedCompiledGoFiles | packages.NeedSyntax | packages.NeedTypes | packages.NeedTypesInfo | packages.NeedImports | packages.NeedDeps, Dir: root}
	pkgs, err := packages.Load(cfg, "./"+dir)
	if err != nil || len(pkgs) != 1 {
		fmt.Fprintln(os.Stderr, "load:", err, len(pkgs))
		os.Exit(2)
	}
	p := pkgs[0]
	if len(p.Errors) > 0 {
		fmt.Fprintln(os.Stderr, "package errors:", p.Errors[0])
		os.Exit(2)
	}
	var names []string
	files := map[string]*ast.File{}
	for i, f := range p.Syntax {
		n := filepath.Base(p.CompiledGoFiles[i])
		if strings.HasSuffix(n, "_test.go") || strings.HasSuffix(n, ".pb.go") {
			continue
		}
		names = append(names, n)
		files[n] = f
	}
	sort.Strings(names)
	for _, n := range names {
		f := files[n]
		var keep []*ast.CommentGroup
		for _, cg := range f.Comments {
			k := cg.Pos() < f.Package
			for _, c := range cg.List {
				if len(c.Text) > 5 && (c.Text[:5] == "//go:" || (len(c.Text) > 9 && c.Text[:9] == "// +build")) {
					k = true
				}
			}
			if k {
				keep = append(keep, cg)
			}
		}
		f.Comments = keep
		before := counter
		tc := &typedCtx{fset: p.Fset, pkg: p.Types, info: p.TypesInfo, file: f}
		t(tc)
		sites := counter - before
		if sites == 0 {
			continue
		}
		var buf bytes.Buffer
		if err := format.Node(&buf, p.Fset, f); err != nil {
			fmt.Fprintln(os.Stderr, err)
			os.Exit(2)
		}
		for _, e := range tc.extra {
			buf.WriteString("\n" + e)
		}
		src, err := format.Source(buf.Bytes())
		if err != nil {
			fmt.Fprintln(os.Stderr, n, err)
			os.Exit(2)
		}
		if err := os.WriteFile(filepath.Join(out, n), src, 0o644); err != nil {
			fmt.Fprintln(os.Stderr, err)
			os.Exit(2)
		}
		fmt.Println(n, sites)
	}
}
