#!/bin/bash
# seedtest.sh <patch.diff> <PROP>... : apply a seeded change to /repo, run the
# quick checks, and always undo it. Evidence/replay go to a scratch dir.
patch=$1; shift
. /verif/env.sh
tmp=$(mktemp -d /tmp/seedtest.XXXXXX)
cp /verif/known_findings.json $tmp/
git -C /repo apply "$(realpath "$patch")" || { echo "PATCH DOES NOT APPLY"; rm -rf $tmp; exit 3; }
trap 'git -C /repo checkout -- . ; rm -rf $tmp' EXIT
for p in "$@"; do
  /verif/bin/lp2pcheck -verif $tmp -tier ${TIER:-quick} $p | grep -v "^  C\|^VIOLATION" | cut -c1-500
  echo "  -> $p exit=${PIPESTATUS[0]}"
done
